"""C16 - every class the factories generate satisfies the framework's own contracts.

D1 template x classmethod-rule matrix (rule table read from the catalogue on every run),
   SVA241 / SVA250 shape rules on templates,
D2 node metadata mirrors the wrapped processor (delegation patterns of the node base classes),
D3 created keys mirror the processor, without duplicates; registry coherence (SVA107) relies on
   the component registry holding every live generated class.
"""
from __future__ import annotations

import ast
import re as _re
from typing import Dict, List, Optional, Set, Tuple

from ..engine import (
    AnalysisError,
    FuncNode,
    Repo,
    ancestors,
    assigned_value,
    call_attr,
    call_name,
    calls_in,
    dotted_name,
    enclosing_function,
    kwarg,
    norm,
    qualname_of,
    slice_text,
    stmt_of,
    walk_no_nested,
)
from ..engine import _attach_parents
from ..normal import clone, nfunc, normalize
from ..report import Report

EXP = "semantiva/contracts/expectations.py"
NODES = "semantiva/pipeline/nodes/nodes.py"
COMP = "semantiva/core/semantiva_component.py"


def catalogue_classmethod_names(repo: Repo) -> Tuple[Set[str], "NameSelector"]:
    """Method names the catalogue requires to be classmethods (literal second arguments of `_is_classmethod`), and the
    selector of the rules that pick their subject names out of `dir(cls)` (SVA003)."""
    mod = repo.module(EXP)
    names: Set[str] = set()
    helpers = classmethod_test_helpers(repo)
    if not helpers:
        raise AnalysisError("contract catalogue: no helper `(cls, name) -> isinstance(<static lookup of name on cls>, classmethod)` found (anchor `_is_classmethod` vanished)")
    for c in [n for n in ast.walk(mod.tree) if isinstance(n, ast.Call)]:
        if call_attr(c) in helpers and len(c.args) == 2 and isinstance(c.args[1], ast.Constant):
            names.add(c.args[1].value)
    selector = NameSelector(repo)
    if len(names) < 8 or not selector.scans:
        raise AnalysisError(f"contract catalogue: {len(names)} classmethod rules / {len(selector.scans)} dir()-scan selecting the names that must be classmethods found (10 names and one scan for '*_data_type' confirmed by reading)")
    return names, selector


def classmethod_test_helpers(repo: Repo) -> Set[str]:
    """Module-level helpers of the catalogue that answer whether a named attribute of a class is a classmethod, found by
    what they do: two parameters (class, name), a static lookup of the name on the class (`getattr_static` / `__dict__`),
    and an `isinstance(.., classmethod)` on what was found."""
    out: Set[str] = set()
    for qn, fn in repo.module(EXP).defs.items():
        if not isinstance(fn, FuncNode) or "." in qn:
            continue
        ps = [a.arg for a in fn.args.args]
        if len(ps) != 2:
            continue
        looks_up = any(isinstance(c, ast.Call) and (call_name(c) or "").split(".")[-1] in ("getattr_static", "getattr") and len(c.args) >= 2 and all(isinstance(a, ast.Name) for a in c.args[:2]) and [a.id for a in c.args[:2]] == ps for c in ast.walk(fn))
        tests = any(isinstance(c, ast.Call) and isinstance(c.func, ast.Name) and c.func.id == "isinstance" and len(c.args) == 2 and dotted_name(c.args[1]) == "classmethod" for c in ast.walk(fn))
        if looks_up and tests:
            out.add(qn)
    return out


def is_classmethod_value(v: Optional[ast.AST], scope: ast.AST) -> bool:
    if isinstance(v, ast.Call) and call_attr(v) == "classmethod":
        return True
    if isinstance(v, ast.Name):
        for d in ast.walk(scope):
            if isinstance(d, FuncNode) and d.name == v.id and any(dotted_name(x) == "classmethod" for x in d.decorator_list):
                return True
        vals = assigned_value(scope, v.id)
        return bool(vals) and all(is_classmethod_value(x, scope) for x in vals)
    return False


def templates(repo: Repo) -> List[Tuple[str, str, Dict[str, Tuple[ast.AST, bool]], List[str], ast.AST]]:
    """(file, template name, {attribute: (node, is_classmethod)}, base names, site) of every dynamic class template."""
    out = []
    for mod in repo.modules.values():
        if mod.rel.startswith(("semantiva/examples/", "semantiva/contracts/")):
            continue
        for qn, node in mod.defs.items():
            # class statements inside functions
            if isinstance(node, ast.ClassDef) and enclosing_function(node) is not None:
                attrs: Dict[str, Tuple[ast.AST, bool]] = {}
                for st in node.body:
                    if isinstance(st, FuncNode):
                        attrs[st.name] = (st, any(dotted_name(d) == "classmethod" for d in st.decorator_list))
                    elif isinstance(st, ast.Assign) and isinstance(st.targets[0], ast.Name):
                        attrs[st.targets[0].id] = (st, is_classmethod_value(st.value, enclosing_function(node)))
                out.append((mod.rel, qn, attrs, [dotted_name(b) or "?" for b in node.bases], node))
        for qn, fn in [(q, n) for q, n in mod.defs.items() if isinstance(n, FuncNode)]:
            for c in calls_in(fn):
                is_type3 = isinstance(c.func, ast.Name) and c.func.id == "type" and len(c.args) == 3
                is_new = call_name(c) in ("types.new_class", "new_class")
                if not (is_type3 or is_new):
                    continue
                ns = c.args[2] if is_type3 else None
                bases = c.args[1] if len(c.args) > 1 else None
                base_names = [dotted_name(b) or "?" for b in (bases.elts if isinstance(bases, ast.Tuple) else [])]
                attrs = {}
                lits: List[ast.AST] = []
                ns_name = ns.id if isinstance(ns, ast.Name) else None
                if isinstance(ns, ast.Dict):
                    lits.append(ns)
                if ns_name:
                    lits.extend(v for v in assigned_value(fn, ns_name) if isinstance(v, ast.Dict))
                    for n in ast.walk(fn):
                        if isinstance(n, ast.Assign) and any(isinstance(t, ast.Subscript) and dotted_name(t.value) == ns_name and isinstance(t.slice, ast.Constant) for t in n.targets):
                            k = [t for t in n.targets if isinstance(t, ast.Subscript)][0].slice.value
                            attrs[k] = (n, is_classmethod_value(n.value, fn))
                for d in lits:
                    for k, v in zip(d.keys, d.values):
                        if isinstance(k, ast.Constant):
                            attrs[k.value] = (v, is_classmethod_value(v, fn))
                if attrs or is_new:
                    out.append((mod.rel, f"{qn} -> type(...)" if is_type3 else f"{qn} -> new_class(...)", attrs, base_names, c))
    return out


# --------------------------------------------------------------------------- template member functions
_BINDERS = ("classmethod", "staticmethod", "property")


def _first_param(f: ast.AST) -> Optional[str]:
    a = f.args  # type: ignore[attr-defined]
    ps = list(getattr(a, "posonlyargs", [])) + list(a.args)
    return ps[0].arg if ps else None


def _params(f: ast.AST) -> List[str]:
    a = f.args  # type: ignore[attr-defined]
    out = [x.arg for x in list(getattr(a, "posonlyargs", [])) + list(a.args) + list(a.kwonlyargs)]
    if a.vararg:
        out.append(a.vararg.arg)
    if a.kwarg:
        out.append(a.kwarg.arg)
    return out


def _resolve_callable(repo: Repo, rel: str, name: str, at: ast.AST) -> List[ast.AST]:
    """Function definitions / lambdas a bare name denotes at *at*: enclosing function scopes inside out, then the module."""
    scopes = [a for a in ancestors(at) if isinstance(a, FuncNode)]
    for sc in scopes:
        found: List[ast.AST] = [d for d in ast.walk(sc) if isinstance(d, FuncNode) and d is not sc and d.name == name]
        for n in ast.walk(sc):
            if isinstance(n, ast.Assign) and any(isinstance(t, ast.Name) and t.id == name for t in n.targets) and isinstance(n.value, ast.Lambda):
                found.append(n.value)
        if found:
            return found
    d = repo.module(rel).defs.get(name)
    return [d] if isinstance(d, FuncNode) else []


def member_functions(repo: Repo, rel: str, attrs: Dict[str, Tuple[ast.AST, bool]], site: ast.AST) -> List[Tuple[str, ast.AST, str]]:
    """(attribute, function definition or lambda, binding) of every template attribute whose value is a function
    the analysis can see; binding is classmethod / staticmethod / property / plain."""
    out: List[Tuple[str, ast.AST, str]] = []
    for attr, (node, _cm) in sorted(attrs.items()):
        if isinstance(node, FuncNode):
            binding = next((dotted_name(d) for d in node.decorator_list if dotted_name(d) in _BINDERS), "plain")
            out.append((attr, node, binding or "plain"))
            continue
        v = node.value if isinstance(node, (ast.Assign, ast.AnnAssign)) else node
        binding = "plain"
        seen = 0
        while v is not None and seen < 6:
            seen += 1
            if isinstance(v, ast.Call) and isinstance(v.func, ast.Name) and v.func.id in _BINDERS and v.args:
                binding = v.func.id if binding == "plain" else binding
                v = v.args[0]
                continue
            break
        if isinstance(v, ast.Lambda):
            out.append((attr, v, binding))
        elif isinstance(v, ast.Name):
            for d in _resolve_callable(repo, rel, v.id, site):
                b = binding
                if b == "plain" and isinstance(d, FuncNode):
                    b = next((dotted_name(x) for x in d.decorator_list if dotted_name(x) in _BINDERS), "plain") or "plain"
                out.append((attr, d, b))
    return out


def _runtime_derived(e: Optional[ast.AST], fn: ast.AST, tainted: Set[str], _seen: Optional[Set[str]] = None) -> bool:
    """True when *e* denotes the run-time class of the receiver (the receiver of a classmethod, type(receiver),
    receiver.__class__, or a local that was assigned one of those)."""
    _seen = _seen if _seen is not None else set()
    if isinstance(e, ast.Name):
        if e.id in tainted:
            return True
        if e.id in _seen:
            return False
        _seen.add(e.id)
        return any(_runtime_derived(v, fn, tainted, _seen) for v in assigned_value(fn, e.id))
    if isinstance(e, ast.Call) and isinstance(e.func, ast.Name) and e.func.id == "type" and len(e.args) == 1:
        return _runtime_derived(e.args[0], fn, tainted, _seen)
    if isinstance(e, ast.Attribute) and e.attr == "__class__":
        return _runtime_derived(e.value, fn, tainted, _seen)
    if isinstance(e, ast.IfExp):
        return _runtime_derived(e.body, fn, tainted, _seen) or _runtime_derived(e.orelse, fn, tainted, _seen)
    if isinstance(e, ast.NamedExpr):
        return _runtime_derived(e.value, fn, tainted, _seen)
    return False


def super_calls(repo: Repo, rel: str, fn: ast.AST, tainted: Set[str], template: ast.AST, _depth: int = 0, _visited: Optional[Set[int]] = None) -> List[Tuple[ast.Call, ast.AST, str]]:
    """Every ``super(...)`` call a template member executes - in its own body, in closures nested in it and in
    same-module helpers the receiver is handed to (three levels) - with a verdict:
    ''            the walk starts behind the class that defines the member (zero-argument form lexically inside the
                  template's class statement, or an explicit class that is not derived from the receiver);
    'runtime'     the first argument is the receiver's run-time class: a subclass of the generated class resolves to
                  the same function again (unbounded recursion);
    'no-cell'     zero-argument form outside the template's class statement (no / a foreign ``__class__`` cell).
    """
    _visited = _visited if _visited is not None else set()
    if id(fn) in _visited or _depth > 3:
        return []
    _visited.add(id(fn))
    out: List[Tuple[ast.Call, ast.AST, str]] = []
    body_nodes = list(walk_no_nested(fn))
    for n in body_nodes:
        if n is not fn and isinstance(n, FuncNode + (ast.Lambda,)):
            out.extend(super_calls(repo, rel, n, tainted - set(_params(n)), template, _depth, _visited))
        if not isinstance(n, ast.Call):
            continue
        if isinstance(n.func, ast.Name) and n.func.id == "super":
            if not n.args:
                cls_anc = next((a for a in ancestors(n) if isinstance(a, ast.ClassDef)), None)
                out.append((n, fn, "" if (isinstance(template, ast.ClassDef) and cls_anc is template) else "no-cell"))
            else:
                out.append((n, fn, "runtime" if _runtime_derived(n.args[0], fn, tainted) else ""))
            continue
        # the receiver handed to a helper defined in this module
        if isinstance(n.func, ast.Name):
            passed_pos = [i for i, a in enumerate(n.args) if _runtime_derived(a, fn, tainted)]
            passed_kw = [k.arg for k in n.keywords if k.arg and _runtime_derived(k.value, fn, tainted)]
            if passed_pos or passed_kw:
                for h in _resolve_callable(repo, rel, n.func.id, n):
                    hp = [x.arg for x in list(getattr(h.args, "posonlyargs", [])) + list(h.args.args)]
                    t2 = {hp[i] for i in passed_pos if i < len(hp)} | {k for k in passed_kw if k in _params(h)}
                    if t2:
                        out.extend(super_calls(repo, rel, h, t2, template, _depth + 1, _visited))
    return out


_NOT_A_DICT = (ast.List, ast.Tuple, ast.Set, ast.ListComp, ast.SetComp, ast.GeneratorExp, ast.JoinedStr, ast.Constant)


def _surely_not_dict(e: Optional[ast.AST], fn: ast.AST, _seen: Optional[Set[str]] = None) -> bool:
    _seen = _seen if _seen is not None else set()
    if e is None or isinstance(e, _NOT_A_DICT):
        return True
    if isinstance(e, ast.Name) and e.id not in _seen and e.id not in _params(fn):
        _seen.add(e.id)
        vals = assigned_value(fn, e.id)
        return bool(vals) and all(_surely_not_dict(v, fn, _seen) for v in vals)
    if isinstance(e, ast.IfExp):
        return _surely_not_dict(e.body, fn, _seen) or _surely_not_dict(e.orelse, fn, _seen)
    return False


# --------------------------------------------------------------------------- node classes: what a classmethod returns
class _Rename(ast.NodeTransformer):
    def __init__(self, old: str, new: str):
        self.old, self.new = old, new

    def visit_Name(self, node: ast.Name):
        return ast.copy_location(ast.Name(id=self.new, ctx=node.ctx), node) if node.id == self.old else node

    def visit_arg(self, node: ast.arg):
        if node.arg == self.old:
            node.arg = self.new
        return node


def node_method(repo: Repo, qualname: str) -> ast.AST:
    """Normal form of a node-class method (locals substituted, accumulate loops as comprehensions, helpers inlined)
    with the receiver spelled `cls`, so that rules do not depend on local names or on how the value is staged."""
    memo = repo.__dict__.setdefault("_c16_node_methods", {})
    if qualname in memo:  # rules only read the normal form
        return memo[qualname]
    f = clone(nfunc(repo, NODES, qualname, copyprop="all", loops=True))
    p0 = _first_param(f)
    if p0 and p0 != "cls":
        f = _Rename(p0, "cls").visit(f)
    ast.fix_missing_locations(f)
    _attach_parents(f)
    memo[qualname] = f
    return f


def _flow(fn: ast.AST, expr: Optional[ast.AST], _seen: Optional[Set[str]] = None) -> List[ast.AST]:
    """Nodes of *expr* and of everything assigned to the locals it reads (backward slice through plain assignments)."""
    if expr is None:
        return []
    _seen = _seen if _seen is not None else set()
    out = list(ast.walk(expr))
    for nm in sorted({x.id for x in out if isinstance(x, ast.Name)}):
        if nm in _seen:
            continue
        _seen.add(nm)
        for v in assigned_value(fn, nm):
            out.extend(_flow(fn, v, _seen))
        # what is added to the local afterwards (nm.append(x) / nm.extend(xs) / nm += xs), with the loop
        # iterables and guards that decide whether and how often that happens
        for st in walk_no_nested(fn):
            added: List[ast.AST] = []
            if isinstance(st, ast.Expr) and isinstance(st.value, ast.Call) and isinstance(st.value.func, ast.Attribute) and st.value.func.attr in ("append", "extend", "insert", "add", "update") and isinstance(st.value.func.value, ast.Name) and st.value.func.value.id == nm:
                added = list(st.value.args)
            elif isinstance(st, ast.AugAssign) and isinstance(st.target, ast.Name) and st.target.id == nm:
                added = [st.value]
            if not added:
                continue
            child: ast.AST = st
            for a in ancestors(st):
                # `if <test>: continue` earlier in the same block decides whether this statement runs
                for fld in ("body", "orelse", "finalbody"):
                    blk = getattr(a, fld, None)
                    if isinstance(blk, list) and any(x is child for x in blk):
                        for prev in blk[: [i for i, x in enumerate(blk) if x is child][0]]:
                            if isinstance(prev, ast.If) and prev.body and isinstance(prev.body[-1], (ast.Continue, ast.Break, ast.Return)):
                                added.append(prev.test)
                child = a
                if a is fn:
                    break
                if isinstance(a, (ast.For, ast.AsyncFor)):
                    added.append(a.iter)
                elif isinstance(a, (ast.If, ast.While)):
                    added.append(a.test)
            for v in added:
                out.extend(_flow(fn, v, _seen))
    return out


def _is_processor(fn: ast.AST, e: ast.AST, _seen: Optional[Set[str]] = None) -> bool:
    """`cls.processor`, or a local that holds it."""
    _seen = _seen if _seen is not None else set()
    if isinstance(e, ast.Attribute) and e.attr == "processor" and isinstance(e.value, ast.Name) and e.value.id == "cls":
        return True
    if isinstance(e, ast.Name) and e.id not in _seen:
        _seen.add(e.id)
        vals = assigned_value(fn, e.id)
        return bool(vals) and all(_is_processor(fn, v, _seen) for v in vals)
    return False


def returns_reading(fn: ast.AST, provider: str) -> Tuple[List[ast.Return], List[ast.Return]]:
    """(returns whose value is computed from the wrapped processor's *provider*, the other returns).
    The provider is read as `cls.processor.<provider>` or `getattr(cls.processor, "<provider>", ...)`."""
    yes: List[ast.Return] = []
    no: List[ast.Return] = []
    for r in walk_no_nested(fn):
        if not isinstance(r, ast.Return):
            continue
        hit = False
        for n in _flow(fn, r.value):
            if isinstance(n, ast.Attribute) and n.attr == provider and _is_processor(fn, n.value):
                hit = True
            elif isinstance(n, ast.Call) and isinstance(n.func, ast.Name) and n.func.id == "getattr" and len(n.args) >= 2 and isinstance(n.args[1], ast.Constant) and n.args[1].value == provider and _is_processor(fn, n.args[0]):
                hit = True
        (yes if hit else no).append(r)
    return yes, no


def _is_filter(test: ast.AST) -> str:
    """'keep' when a true *test* keeps the element (comprehension condition, guard of the adding block), 'drop' when a
    true *test* skips it (`not` of the former, or `if test: continue`), '' when it is not a filter."""
    neg = False
    for a in ancestors(test):
        if isinstance(a, ast.UnaryOp) and isinstance(a.op, ast.Not):
            neg = not neg
            continue
        if isinstance(a, ast.comprehension):
            return ("drop" if neg else "keep") if any(test in ast.walk(x) for x in a.ifs) else ""
        if isinstance(a, ast.If) and test in ast.walk(a.test):
            skips = len(a.body) == 1 and isinstance(a.body[0], ast.Continue) and not a.orelse
            return "drop" if (neg != skips) else "keep"
        return ""
    return ""


def ancestors_of(root: ast.AST, node: ast.AST) -> List[ast.AST]:
    """Nodes of *root* that (transitively) contain *node* (root-first)."""
    out: List[ast.AST] = []

    def rec(cur: ast.AST) -> bool:
        if cur is node:
            return True
        for ch in ast.iter_child_nodes(cur):
            if rec(ch):
                out.append(cur)
                return True
        return False

    rec(root)
    return out


def _in_handler(fn: ast.AST, node: ast.AST) -> bool:
    return any(isinstance(a, ast.ExceptHandler) for a in ancestors(node))


# --------------------------------------------------------------------------- round 3: catalogue applicability (SVA250)
class _Unknown(Exception):
    """The abstract evaluator met an expression it has no facts for."""


class _AbsClass:
    """A class known by the names along its MRO only."""

    def __init__(self, names: List[str]):
        self.names = list(names)

    def attr(self, name: str):
        if name in ("__name__", "__qualname__"):
            return self.names[0]
        if name == "__mro__":
            return tuple(_AbsClass(self.names[i:]) for i in range(len(self.names)))
        if name == "__bases__":
            return tuple(_AbsClass(self.names[i:]) for i in range(1, min(2, len(self.names))))
        raise _Unknown(f"attribute {name} of the generated class")


def abs_eval(e: ast.AST, env: Dict[str, object], fn: ast.AST, _depth: int = 0):
    """Value of a side-effect-free expression over abstract facts (`md` a dict with the declared component_type, `cls`
    an _AbsClass); three-valued: raises _Unknown where the facts do not decide it.  Nothing of the repo is executed."""
    if _depth > 40:
        raise _Unknown("depth")
    ev = lambda x, en=env: abs_eval(x, en, fn, _depth + 1)  # noqa: E731
    if isinstance(e, ast.Constant):
        return e.value
    if isinstance(e, ast.Name):
        if e.id in env:
            return env[e.id]
        vals = assigned_value(fn, e.id)
        if len(vals) == 1:
            return ev(vals[0])
        raise _Unknown(f"name {e.id}")
    if isinstance(e, (ast.Set, ast.Tuple, ast.List)):
        vals = [ev(x) for x in e.elts]
        return frozenset(vals) if isinstance(e, ast.Set) else tuple(vals)
    if isinstance(e, ast.NamedExpr):
        return ev(e.value)
    if isinstance(e, ast.UnaryOp) and isinstance(e.op, ast.Not):
        return not ev(e.operand)
    if isinstance(e, ast.BoolOp):
        is_and = isinstance(e.op, ast.And)
        unknown: Optional[_Unknown] = None
        last: object = is_and
        for x in e.values:
            try:
                last = ev(x)
            except _Unknown as u:
                unknown = u
                continue
            if bool(last) != is_and:
                return last  # the deciding operand: the others do not matter (no side effects in a test)
        if unknown is not None:
            raise unknown
        return last
    if isinstance(e, ast.IfExp):
        return ev(e.body) if ev(e.test) else ev(e.orelse)
    if isinstance(e, ast.Compare):
        left = ev(e.left)
        for op, right_e in zip(e.ops, e.comparators):
            right = ev(right_e)
            if isinstance(op, (ast.In, ast.NotIn)):
                if isinstance(right, _AbsClass) or not hasattr(right, "__contains__"):
                    raise _Unknown("membership in a non-container")
                if isinstance(right, dict) and left not in right:
                    raise _Unknown("key of the metadata dict that the template facts do not fix")
                res = left in right
                res = res if isinstance(op, ast.In) else not res
            elif isinstance(op, (ast.Eq, ast.NotEq)):
                if isinstance(left, _AbsClass) or isinstance(right, _AbsClass):
                    raise _Unknown("class identity")
                res = (left == right) if isinstance(op, ast.Eq) else (left != right)
            elif isinstance(op, (ast.Is, ast.IsNot)):
                if left is not None and right is not None:
                    raise _Unknown("identity")
                res = (left is right) if isinstance(op, ast.Is) else (left is not right)
            else:
                raise _Unknown("comparison operator")
            if not res:
                return False
            left = right
        return True
    if isinstance(e, ast.Subscript) and isinstance(e.slice, ast.Constant):
        base = ev(e.value)
        if isinstance(base, dict) and e.slice.value in base:
            return base[e.slice.value]
        if isinstance(base, (str, tuple)) and isinstance(e.slice.value, int) and -len(base) <= e.slice.value < len(base):
            return base[e.slice.value]
        raise _Unknown("subscript")
    if isinstance(e, ast.Subscript) and isinstance(e.slice, ast.Slice):
        base = ev(e.value)
        bounds = [None if b is None else ev(b) for b in (e.slice.lower, e.slice.upper, e.slice.step)]
        if isinstance(base, (str, tuple)) and all(b is None or isinstance(b, int) for b in bounds) and bounds[2] != 0:
            return base[bounds[0]:bounds[1]:bounds[2]]
        raise _Unknown("slice")
    if isinstance(e, ast.UnaryOp) and isinstance(e.op, ast.USub):
        v = ev(e.operand)
        if isinstance(v, (int, float)) and not isinstance(v, bool):
            return -v
        raise _Unknown("negation")
    if isinstance(e, ast.Attribute):
        base = ev(e.value)
        if isinstance(base, _AbsClass):
            return base.attr(e.attr)
        raise _Unknown(f"attribute {e.attr}")
    if isinstance(e, (ast.ListComp, ast.SetComp, ast.GeneratorExp)) and len(e.generators) == 1 and isinstance(e.generators[0].target, ast.Name):
        g = e.generators[0]
        items = []
        for item in ev(g.iter):
            en = dict(env)
            en[g.target.id] = item
            if all(abs_eval(c, en, fn, _depth + 1) for c in g.ifs):
                items.append(abs_eval(e.elt, en, fn, _depth + 1))
        return frozenset(items) if isinstance(e, ast.SetComp) else tuple(items)
    if isinstance(e, ast.Call):
        fname = e.func.id if isinstance(e.func, ast.Name) else None
        if fname == "isinstance" and len(e.args) == 2:
            v = ev(e.args[0])
            kinds = {dotted_name(x) for x in (e.args[1].elts if isinstance(e.args[1], ast.Tuple) else [e.args[1]])}
            if isinstance(v, _Member) and kinds == {"classmethod"}:
                if v.binding is None:
                    raise _Unknown("how the attribute is bound")
                return v.binding == "classmethod"
            if isinstance(v, dict) and kinds & {"dict", "Mapping", "collections.abc.Mapping", "abc.Mapping", "MutableMapping"}:
                return True
            if v is None:
                return False
            raise _Unknown("isinstance")
        if fname == "issubclass" and len(e.args) == 2:
            v = ev(e.args[0])
            kinds = [dotted_name(x) for x in (e.args[1].elts if isinstance(e.args[1], ast.Tuple) else [e.args[1]])]
            if isinstance(v, _AbsClass) and all(kinds):
                return any(str(k).split(".")[-1] in v.names for k in kinds)
            raise _Unknown("issubclass")
        if fname == "hasattr" and len(e.args) == 2 and isinstance(e.args[1], ast.Constant):
            base = ev(e.args[0])
            if isinstance(base, _AbsExact):
                return base.has(e.args[1].value)
            if isinstance(base, _AbsClass):
                base.attr(e.args[1].value)  # known to exist, else _Unknown: a subclass may add the attribute
                return True
            raise _Unknown("hasattr")
        if (call_name(e) or "").split(".")[-1] == "getattr_static" and 2 <= len(e.args) <= 3 and not e.keywords and isinstance(e.args[1], (ast.Constant, ast.Name)):
            base, nm = ev(e.args[0]), ev(e.args[1])
            if isinstance(base, _AbsExact) and isinstance(nm, str):
                found = base.static(nm)
                if found is not None:
                    return found
                if len(e.args) == 3:
                    return ev(e.args[2])
            raise _Unknown("static attribute lookup")
        if fname == "getattr" and len(e.args) >= 2 and isinstance(e.args[1], ast.Constant):
            base = ev(e.args[0])
            if isinstance(base, _AbsClass):
                try:
                    return base.attr(e.args[1].value)
                except _Unknown:
                    raise
            raise _Unknown("getattr")
        if fname in ("set", "frozenset", "tuple", "list", "sorted") and len(e.args) <= 1 and not e.keywords:
            vals = tuple(ev(e.args[0])) if e.args else ()
            return frozenset(vals) if fname in ("set", "frozenset") else vals
        if fname in ("any", "all") and len(e.args) == 1:
            a = e.args[0]
            if isinstance(a, (ast.GeneratorExp, ast.ListComp, ast.SetComp)) and len(a.generators) == 1 and isinstance(a.generators[0].target, ast.Name):
                g = a.generators[0]
                results = []
                unknown = None
                for item in ev(g.iter):
                    en = dict(env)
                    en[g.target.id] = item
                    try:
                        if not all(abs_eval(c, en, fn, _depth + 1) for c in g.ifs):
                            continue
                        results.append(bool(abs_eval(a.elt, en, fn, _depth + 1)))
                    except _Unknown as u:
                        unknown = u
                if fname == "any" and any(results):
                    return True
                if fname == "all" and not all(results):
                    return False
                if unknown is not None:
                    raise unknown
                return fname == "all"
            return (any if fname == "any" else all)(bool(x) for x in ev(a))
        if fname in ("len",) and len(e.args) == 1:
            return len(ev(e.args[0]))
        if fname == "bool" and len(e.args) == 1:
            return bool(ev(e.args[0]))
        if isinstance(e.func, ast.Attribute) and e.func.attr == "get" and 1 <= len(e.args) <= 2 and isinstance(e.args[0], ast.Constant):
            base = ev(e.func.value)
            if isinstance(base, dict):
                if e.args[0].value in base:
                    return base[e.args[0].value]
                raise _Unknown("key of the metadata dict that the template facts do not fix")
        if isinstance(e.func, ast.Attribute) and e.func.attr in ("lower", "upper", "strip", "casefold") and not e.args:
            base = ev(e.func.value)
            if isinstance(base, str):
                return getattr(base, e.func.attr)()
        if isinstance(e.func, ast.Attribute) and e.func.attr in ("startswith", "endswith") and len(e.args) == 1:
            base, arg = ev(e.func.value), ev(e.args[0])
            if isinstance(base, str) and isinstance(arg, (str, tuple)):
                return getattr(base, e.func.attr)(arg)
        # literal regular expressions (interpreted here, nothing of the repo runs)
        if call_name(e) == "re.compile" and len(e.args) == 1 and not e.keywords:
            pat = ev(e.args[0])
            if isinstance(pat, str):
                try:
                    return _re.compile(pat)
                except _re.error:
                    raise _Unknown("malformed regular expression")
        if isinstance(e.func, ast.Attribute) and e.func.attr in ("match", "search", "fullmatch") and not e.keywords:
            if dotted_name(e.func.value) == "re" and len(e.args) == 2:
                pat, subject = ev(e.args[0]), ev(e.args[1])
                if isinstance(pat, str) and isinstance(subject, str):
                    try:
                        return getattr(_re, e.func.attr)(pat, subject) is not None
                    except _re.error:
                        raise _Unknown("malformed regular expression")
            elif len(e.args) == 1:
                base, subject = ev(e.func.value), ev(e.args[0])
                if isinstance(base, _re.Pattern) and isinstance(subject, str):
                    return getattr(base, e.func.attr)(subject) is not None
        if (call_name(e) or "").split(".")[-1] in ("fnmatch", "fnmatchcase") and len(e.args) == 2 and not e.keywords:
            subject, pat = ev(e.args[0]), ev(e.args[1])
            if isinstance(subject, str) and isinstance(pat, str):
                import fnmatch as _fn

                return _fn.fnmatchcase(subject, pat)
        if isinstance(e.func, ast.Attribute) and e.func.attr in ("removeprefix", "removesuffix") and len(e.args) == 1:
            base, arg = ev(e.func.value), ev(e.args[0])
            if isinstance(base, str) and isinstance(arg, str):
                return getattr(base, e.func.attr)(arg)
        raise _Unknown(f"call {ast.unparse(e)[:60]}")
    raise _Unknown(type(e).__name__)


class _Member:
    """What a static lookup of an attribute finds on a generated class: only how the name is bound is known
    ('classmethod' / 'other' / None = not decided)."""

    def __init__(self, binding: Optional[str]):
        self.binding = binding


class _AbsExact(_AbsClass):
    """A generated class whose attributes are known exactly: *members* maps every name that its template or a class along
    its MRO binds to the way it is bound; when *closed* (every base resolved inside the package) any other plain name is
    absent.  Dunder names and names the metaclasses define stay undecided."""

    def __init__(self, names: List[str], members: Dict[str, Optional[str]], closed: bool, meta_names: Set[str]):
        super().__init__(names)
        self.members = dict(members)
        self.closed = closed
        self.meta_names = set(meta_names)

    def _absent(self, name: str) -> bool:
        if not self.closed or (name.startswith("__") and name.endswith("__")) or name in self.meta_names:
            raise _Unknown(f"whether the generated class has `{name}`")
        return True

    def has(self, name: str) -> bool:
        return name in self.members or not self._absent(name)

    def static(self, name: str) -> Optional[_Member]:
        if name in self.members:
            return _Member(self.members[name])
        self._absent(name)
        return None

    def attr(self, name: str):
        if name in self.members:
            return _Opaque()
        return super().attr(name)


# --------------------------------------------------------------------------- round 4: which names must be classmethods
def _mentions_classmethod(n: ast.AST) -> bool:
    return any(isinstance(x, ast.Name) and x.id == "classmethod" for x in ast.walk(n))


class NameSelector:
    """The catalogue rules that take their subject names from a scan of `dir(cls)` and require each selected name to be
    bound to a classmethod, as a decision procedure over a concrete attribute name: the filters between the `dir()`
    scan and the classmethod test are evaluated on the name (string methods, membership, literal regular expressions)."""

    def __init__(self, repo: Repo):
        self.repo = repo
        mod = repo.module(EXP)
        self.mod = mod
        checks: List[str] = []
        for c in [n for n in ast.walk(mod.tree) if isinstance(n, ast.Call)]:
            if call_name(c) == "RuleSpec":
                cand = [a for a in list(c.args) + [k.value for k in c.keywords] if isinstance(a, ast.Name) and isinstance(mod.defs.get(a.id), FuncNode)]
                checks.extend(a.id for a in cand if a.id not in checks)
        if len(checks) < 10:
            raise AnalysisError(f"contract catalogue: {len(checks)} check functions registered through RuleSpec(...) found (30+ confirmed by reading)")
        self.n_checks = len(checks)
        # (check name, normal form, loop or comprehension whose body / conditions hold the classmethod test, loop variable)
        self.scans: List[Tuple[str, ast.AST, ast.AST, str]] = []
        for qn in checks:
            src = mod.defs[qn]
            if not any(isinstance(c, ast.Call) and isinstance(c.func, ast.Name) and c.func.id == "dir" for h in [src] + [mod.defs[x] for x in self._callees(src)] for c in ast.walk(h)):
                continue
            f = clone(nfunc(repo, EXP, qn, copyprop="all"))
            _attach_parents(f)
            for n in ast.walk(f):
                if isinstance(n, (ast.For, ast.AsyncFor)) and isinstance(n.target, ast.Name) and any(_mentions_classmethod(b) for b in n.body) and self._from_dir(f, n.iter, set()):
                    self.scans.append((qn, f, n, n.target.id))
                elif isinstance(n, (ast.ListComp, ast.SetComp, ast.GeneratorExp)) and len(n.generators) == 1 and isinstance(n.generators[0].target, ast.Name) and (any(_mentions_classmethod(i) for i in n.generators[0].ifs) or _mentions_classmethod(n.elt)) and self._from_dir(f, n.generators[0].iter, set()):
                    self.scans.append((qn, f, n, n.generators[0].target.id))

    def _callees(self, fn: ast.AST, _seen: Optional[Set[str]] = None) -> Set[str]:
        _seen = _seen if _seen is not None else set()
        for c in ast.walk(fn):
            if isinstance(c, ast.Call) and isinstance(c.func, ast.Name) and c.func.id not in _seen and isinstance(self.mod.defs.get(c.func.id), FuncNode):
                _seen.add(c.func.id)
                self._callees(self.mod.defs[c.func.id], _seen)
        return _seen

    # -- where the iterated names come from
    def _accumulators(self, f: ast.AST, name: str) -> List[Tuple[ast.AST, str]]:
        """Loops `for V in I: ... name.append(V)` of *f*."""
        out = []
        for n in ast.walk(f):
            if isinstance(n, (ast.For, ast.AsyncFor)) and isinstance(n.target, ast.Name):
                v = n.target.id
                if any(self._adds(st, name, v) for b in n.body for st in ast.walk(b)):
                    out.append((n, v))
        return out

    @staticmethod
    def _adds(st: ast.AST, acc: Optional[str], var: str) -> bool:
        if isinstance(st, ast.Expr) and isinstance(st.value, ast.Call) and isinstance(st.value.func, ast.Attribute) and st.value.func.attr in ("append", "add") and len(st.value.args) == 1 and isinstance(st.value.args[0], ast.Name) and st.value.args[0].id == var:
            return acc is None or (isinstance(st.value.func.value, ast.Name) and st.value.func.value.id == acc)
        if isinstance(st, ast.Expr) and isinstance(st.value, ast.Yield) and isinstance(st.value.value, ast.Name) and st.value.value.id == var:
            return acc is None
        return False

    def _from_dir(self, f: ast.AST, it: ast.AST, seen: Set[str]) -> bool:
        if isinstance(it, ast.Call) and isinstance(it.func, ast.Name) and it.func.id == "dir":
            return True
        if isinstance(it, ast.Call) and isinstance(it.func, ast.Name) and it.func.id in ("list", "sorted", "set", "tuple", "frozenset", "iter", "reversed") and len(it.args) == 1:
            return self._from_dir(f, it.args[0], seen)
        if isinstance(it, (ast.ListComp, ast.SetComp, ast.GeneratorExp)) and len(it.generators) == 1:
            return self._from_dir(f, it.generators[0].iter, seen)
        if isinstance(it, ast.Name) and it.id not in seen:
            seen.add(it.id)
            return any(self._from_dir(f, lp.iter, seen) for lp, _v in self._accumulators(f, it.id)) or any(self._from_dir(f, v, seen) for v in assigned_value(f, it.id) if not (isinstance(v, ast.List) and not v.elts))
        return False

    def _module_env(self, f: ast.AST) -> Dict[str, object]:
        """Module-level names the normal form reads (a compiled pattern, a tuple of names), evaluated from their literal definition."""
        env: Dict[str, object] = {}
        bound = set(_params(f)) | {t.id for n in ast.walk(f) for t in ast.walk(n) if isinstance(t, ast.Name) and isinstance(t.ctx, ast.Store)}
        for nm in sorted({x.id for x in ast.walk(f) if isinstance(x, ast.Name) and isinstance(x.ctx, ast.Load)} - bound):
            vals = [st.value for st in self.mod.tree.body if isinstance(st, (ast.Assign, ast.AnnAssign)) and st.value is not None and any(isinstance(t, ast.Name) and t.id == nm for t in (st.targets if isinstance(st, ast.Assign) else [st.target]))]
            if len(vals) == 1:
                try:
                    env[nm] = abs_eval(vals[0], {}, self.mod.tree)
                except _Unknown:
                    pass
        return env

    def _selected_by(self, f: ast.AST, it: ast.AST, name: str, env: Dict[str, object], seen: Set[str]) -> bool:
        """Does the sequence *it* contain *name*, given that `dir(cls)` does?"""
        if isinstance(it, ast.Call) and isinstance(it.func, ast.Name) and it.func.id == "dir":
            return True
        if isinstance(it, ast.Call) and isinstance(it.func, ast.Name) and it.func.id in ("list", "sorted", "set", "tuple", "frozenset", "iter", "reversed") and len(it.args) == 1:
            return self._selected_by(f, it.args[0], name, env, seen)
        if isinstance(it, (ast.ListComp, ast.SetComp, ast.GeneratorExp)) and len(it.generators) == 1 and isinstance(it.generators[0].target, ast.Name):
            g = it.generators[0]
            if not (isinstance(it.elt, ast.Name) and it.elt.id == g.target.id):
                raise _Unknown(f"the scan maps names: `{norm(it, 80)}`")
            if not self._selected_by(f, g.iter, name, env, seen):
                return False
            en = dict(env)
            en[g.target.id] = name
            return all(bool(abs_eval(c, en, f)) for c in g.ifs)
        if isinstance(it, ast.Name) and it.id not in seen:
            seen.add(it.id)
            for lp, v in self._accumulators(f, it.id):
                if self._from_dir(f, lp.iter, set()) and self._selected_by(f, lp.iter, name, env, seen):
                    en = dict(env)
                    en[v] = name
                    if self._run(lp.body, en, f, lambda st, a=it.id, v=v: self._adds(st, a, v)) == "hit":
                        return True
            for val in assigned_value(f, it.id):
                if self._from_dir(f, val, set()) and self._selected_by(f, val, name, env, seen):
                    return True
            return False
        raise _Unknown(f"source of the scanned names: `{norm(it, 80)}`")

    def _run(self, stmts: List[ast.stmt], env: Dict[str, object], f: ast.AST, is_target) -> str:
        """'hit' when a target statement (or, for an `if`, its test) is executed for the bound name, 'stop' when the
        iteration ends first, 'fall'."""
        for st in stmts:
            if isinstance(st, ast.If):
                if is_target(st.test):
                    return "hit"
                branch = st.body if bool(abs_eval(st.test, env, f)) else st.orelse
                res = self._run(branch, env, f, is_target)
                if res != "fall":
                    return res
                continue
            if is_target(st):
                return "hit"
            if isinstance(st, (ast.Continue, ast.Break, ast.Return, ast.Raise)):
                return "stop"
            if isinstance(st, ast.Assign) and len(st.targets) == 1 and isinstance(st.targets[0], ast.Name):
                try:
                    env[st.targets[0].id] = abs_eval(st.value, env, f)
                except _Unknown:
                    env.pop(st.targets[0].id, None)
                continue
            if isinstance(st, (ast.Try, ast.With)):
                res = self._run(st.body, env, f, is_target)
                if res != "fall":
                    return res
                continue
            if isinstance(st, (ast.For, ast.AsyncFor, ast.While)) and any(is_target(x) for x in ast.walk(st)):
                raise _Unknown(f"nested loop before the classmethod test: `{norm(st, 60)}`")
        return "fall"

    def requires(self, name: str) -> Optional[str]:
        """The catalogue check that demands that attribute *name* be a classmethod (None when none does)."""
        for qn, f, node, var in self.scans:
            env = self._module_env(f)
            try:
                if isinstance(node, (ast.For, ast.AsyncFor)):
                    if not self._selected_by(f, node.iter, name, env, set()):
                        continue
                    en = dict(env)
                    en[var] = name
                    if self._run(node.body, en, f, _mentions_classmethod) == "hit":
                        return qn
                else:
                    g = node.generators[0]
                    if not self._selected_by(f, g.iter, name, env, set()):
                        continue
                    en = dict(env)
                    en[var] = name
                    if all(bool(abs_eval(c, en, f)) for c in g.ifs if not _mentions_classmethod(c)):
                        return qn
            except _Unknown as u:
                raise AnalysisError(f"contract catalogue: cannot decide whether `{qn}` selects the attribute name {name!r} ({u})")
        return None


def _returns_no_diagnostic(body: List[ast.stmt]) -> bool:
    if len(body) != 1 or not isinstance(body[0], ast.Return):
        return False
    v = body[0].value
    return v is None or (isinstance(v, (ast.List, ast.Tuple)) and not v.elts) or (isinstance(v, ast.Constant) and v.value is None) or (isinstance(v, ast.Call) and call_name(v) in ("list", "tuple") and not v.args)


def rule_applies(fn: ast.AST, anchor_const: str, env: Dict[str, object]) -> Tuple[Optional[bool], List[str]]:
    """Does the catalogue rule *fn* (normal form) reach the statement that inspects the attribute named *anchor_const*
    for a class with the abstract facts *env*?  (True / False / None = undecided, the tests that were evaluated)."""
    seen: List[str] = []

    def mentions(st: ast.AST) -> bool:
        return any(isinstance(c, ast.Constant) and c.value == anchor_const for c in ast.walk(st)) or any(isinstance(a, ast.Attribute) and a.attr == anchor_const for a in ast.walk(st))

    def decide(test: ast.AST) -> Optional[bool]:
        try:
            val: Optional[bool] = bool(abs_eval(test, env, fn))
        except _Unknown as u:
            seen.append(f"`{norm(test, 120)}` (undecided: {u})")
            return None
        seen.append(f"`{norm(test, 120)}` is {val}")
        return val

    def block(stmts: List[ast.stmt]) -> Optional[bool]:
        undecided = False
        for st in stmts:
            if isinstance(st, ast.If) and not mentions(st.test):
                in_body = any(mentions(x) for x in st.body)
                in_else = any(mentions(x) for x in st.orelse)
                if _returns_no_diagnostic(st.body) and not in_else:
                    # early exit: `if <not applicable>: return []`
                    val = decide(st.test)
                    if val is True:
                        return False
                    undecided = undecided or val is None
                    continue
                if _returns_no_diagnostic(st.orelse) and not in_body and st.orelse:
                    val = decide(st.test)
                    if val is False:
                        return False
                    undecided = undecided or val is None
                    continue
                if in_body or in_else:
                    val = decide(st.test)
                    if val is None:
                        return None
                    inner = st.body if val else st.orelse
                    if any(mentions(x) for x in inner):
                        res = block(inner)
                        return None if (undecided and res) else res
                    continue
                continue
            if mentions(st):
                return None if undecided else True
        return False

    return block(list(fn.body)), seen  # type: ignore[attr-defined]


def _class_by_name(repo: Repo, name: str):
    hits = [(m, c) for m, q, c in repo.all_classes() if q == name and not m.rel.startswith(("semantiva/examples/", "tests/"))]
    return hits[0] if len(hits) == 1 else None


def declared_component_type(repo: Repo, name: str) -> Optional[str]:
    """The `component_type` literal that class *name* (or the nearest base that has one) writes in _define_metadata."""
    hit = _class_by_name(repo, name)
    if hit is None:
        return None
    for m, c in repo.mro(*hit):
        dm = next((st for st in c.body if isinstance(st, FuncNode) and st.name == "_define_metadata"), None)
        if dm is None:
            continue
        for d in ast.walk(dm):
            if isinstance(d, ast.Dict):
                for k, v in zip(d.keys, d.values):
                    if isinstance(k, ast.Constant) and k.value == "component_type" and isinstance(v, ast.Constant):
                        return v.value
            if isinstance(d, ast.Assign) and any(isinstance(t, ast.Subscript) and isinstance(t.slice, ast.Constant) and t.slice.value == "component_type" for t in d.targets) and isinstance(d.value, ast.Constant):
                return d.value.value
    return None


def mro_names(repo: Repo, base_names: List[str]) -> List[str]:
    out: List[str] = []
    for b in base_names:
        hit = _class_by_name(repo, b.split(".")[-1])
        names = [c.name for _m, c in repo.mro(*hit)] if hit else [b.split(".")[-1]]
        out.extend(n for n in names if n not in out)
    return out


def _flow_in(scope: ast.AST, expr: Optional[ast.AST], _seen: Optional[Set[str]] = None) -> List[ast.AST]:
    """Backward slice of *expr* through plain assignments anywhere in *scope* (a factory function with branch-local
    definitions: every assignment to the name counts)."""
    if expr is None:
        return []
    _seen = _seen if _seen is not None else set()
    out = list(ast.walk(expr))
    for nm in sorted({x.id for x in out if isinstance(x, ast.Name)}):
        if nm in _seen:
            continue
        _seen.add(nm)
        for v in assigned_value(scope, nm):
            out.extend(_flow_in(scope, v, _seen))
    return out


def _local_flow(stmt: ast.AST, expr: ast.AST, scope: ast.AST) -> List[ast.AST]:
    """Like _flow_in, but a name assigned in the block that holds *stmt* (or an enclosing one) is read from the nearest
    such block only - the four branches of the IO factory each bind `new_sig` / `source_params`."""
    out: List[ast.AST] = []
    seen: Set[str] = set()
    todo: List[ast.AST] = [expr]
    while todo:
        x = todo.pop()
        nodes = list(ast.walk(x))
        out.extend(nodes)
        for nm in sorted({n.id for n in nodes if isinstance(n, ast.Name)}):
            if nm in seen:
                continue
            seen.add(nm)
            child: ast.AST = stmt
            found: List[ast.AST] = []
            for a in ancestors(stmt):
                for fld in ("body", "orelse", "finalbody"):
                    blk = getattr(a, fld, None)
                    if isinstance(blk, list) and any(b is child for b in blk):
                        for b in blk:
                            if isinstance(b, ast.Assign) and any(isinstance(t, ast.Name) and t.id == nm for t in b.targets):
                                found.append(b.value)
                            elif isinstance(b, ast.AnnAssign) and isinstance(b.target, ast.Name) and b.target.id == nm and b.value is not None:
                                found.append(b.value)
                if found or a is scope:
                    break
                child = a
            todo.extend(found if found else assigned_value(scope, nm))
    return out


PROVIDERS = ("get_created_keys", "injected_context_keys", "context_keys")
_DROPPING_METHODS = ("difference", "intersection", "symmetric_difference", "remove", "discard", "pop", "clear", "difference_update", "intersection_update")


def provider_reads(nodes: List[ast.AST]) -> List[ast.Call]:
    """Calls `<X>.<provider>()` / `getattr(<X>, "<provider>", ...)()` among *nodes*."""
    out = []
    for n in nodes:
        if not isinstance(n, ast.Call):
            continue
        if isinstance(n.func, ast.Attribute) and n.func.attr in PROVIDERS:
            out.append(n)
        elif isinstance(n.func, ast.Call) and isinstance(n.func.func, ast.Name) and n.func.func.id == "getattr" and len(n.func.args) >= 2 and isinstance(n.func.args[1], ast.Constant) and n.func.args[1].value in PROVIDERS:
            out.append(n)
    return out


def _dedup_only(comp: ast.AST) -> bool:
    """Every condition of the one-generator comprehension *comp* (`[k for k in <seq> if ..]`) only drops an element that
    the value the comprehension is appended to already holds: `k not in X` / `k != y` where the comprehension is an
    operand of `X + [..]` / `[y, ..] + [..]` (or the right-hand side of `X += [..]`).  Nothing of the union is lost."""
    if not isinstance(comp, (ast.ListComp, ast.GeneratorExp)) or len(comp.generators) != 1:
        return False
    g = comp.generators[0]
    if not (isinstance(g.target, ast.Name) and isinstance(comp.elt, ast.Name) and comp.elt.id == g.target.id and g.ifs):
        return False
    # the other operands of the concatenation the comprehension takes part in
    others: List[ast.AST] = []
    child: ast.AST = comp
    for a in ancestors(comp):
        if isinstance(a, ast.BinOp) and isinstance(a.op, ast.Add):
            others.append(a.left if a.right is child else a.right)
        elif isinstance(a, ast.AugAssign) and isinstance(a.op, ast.Add) and a.value is child:
            others.append(a.target)
        elif isinstance(a, ast.Call) and isinstance(a.func, ast.Name) and a.func.id in ("list", "tuple") and len(a.args) == 1 and a.args[0] is child:
            pass
        else:
            break
        child = a
    flat: List[ast.AST] = []
    for o in others:
        todo = [o]
        while todo:
            x = todo.pop()
            if isinstance(x, ast.BinOp) and isinstance(x.op, ast.Add):
                todo.extend([x.left, x.right])
            else:
                flat.append(x)
    if not flat:
        return False
    same = lambda p, q: ast.dump(p).replace("Store()", "Load()") == ast.dump(q).replace("Store()", "Load()")  # noqa: E731
    for c in g.ifs:
        if not (isinstance(c, ast.Compare) and len(c.ops) == 1 and isinstance(c.left, ast.Name) and c.left.id == g.target.id):
            return False
        rhs = c.comparators[0]
        if isinstance(c.ops[0], ast.NotIn) and any(same(rhs, o) for o in flat):
            continue
        if isinstance(c.ops[0], ast.NotEq) and any(isinstance(o, (ast.List, ast.Tuple)) and any(same(rhs, e) for e in o.elts) for o in flat):
            continue
        return False
    return True


def dropped_on_the_way(read: ast.AST, top: ast.AST) -> Optional[str]:
    """The construct between the provider call *read* and the statement / lambda *top* that can drop elements of the
    sequence (a comprehension condition, a set difference, filter(), a slice), or None."""
    child: ast.AST = read
    for a in ancestors(read):
        if isinstance(a, ast.comprehension) and child is a.iter and a.ifs:
            comp = next(iter(ancestors(a)), None)
            if not (comp is not None and _dedup_only(comp)):
                return "if " + " if ".join(norm(c, 80) for c in a.ifs)
        if isinstance(a, (ast.ListComp, ast.SetComp, ast.GeneratorExp)) and len(a.generators) == 1 and child is a.generators[0] and a.generators[0].ifs and any(x is read for x in ast.walk(a.generators[0].iter)) and not _dedup_only(a):
            return "if " + " if ".join(norm(c, 80) for c in a.generators[0].ifs)
        if isinstance(a, ast.BinOp) and isinstance(a.op, (ast.Sub, ast.BitAnd, ast.BitXor)):
            return norm(a, 100)
        if isinstance(a, ast.Call) and a is not read and ((isinstance(a.func, ast.Name) and a.func.id == "filter") or (isinstance(a.func, ast.Attribute) and a.func.attr in _DROPPING_METHODS and a.func is child)):
            return norm(a, 100)
        if isinstance(a, ast.Subscript) and child is a.value and isinstance(a.slice, ast.Slice):
            return norm(a, 100)
        if a is top or isinstance(a, ast.stmt):
            break
        child = a
    return None


def mirrored_unfiltered(repo: Repo, rel: str, f: ast.AST) -> Tuple[int, List[Tuple[str, int]]]:
    """(number of wrapped-provider reads that flow into a return of the key provider *f*, [(dropping construct, line)])."""
    bad: List[Tuple[str, int]] = []
    n_reads = 0
    if isinstance(f, ast.Lambda):
        for rd in provider_reads(list(ast.walk(f.body))):
            n_reads += 1
            d = dropped_on_the_way(rd, f)
            if d:
                bad.append((d, rd.lineno))
        return n_reads, bad
    nf = normalize(repo, repo.module(rel), f, copyprop="all", loops=True)
    _attach_parents(nf)
    for r in walk_no_nested(nf):
        if not isinstance(r, ast.Return) or r.value is None:
            continue
        nodes = _flow(nf, r.value)
        reads = provider_reads(nodes)
        for rd in reads:
            n_reads += 1
            d = dropped_on_the_way(rd, nf)
            if d:
                bad.append((d, getattr(rd, "lineno", f.lineno)))
        for rd in reads:
            # the sequence drives a loop that adds its elements one by one: a guard / continue / break in the body skips some
            loop = stmt_of(rd)
            if isinstance(loop, (ast.For, ast.AsyncFor)) and any(x is rd for x in ast.walk(loop.iter)):
                skip = next((x for b in loop.body for x in ast.walk(b) if isinstance(x, (ast.If, ast.Continue, ast.Break))), None)
                if skip is not None:
                    bad.append((norm(skip.test, 80) if isinstance(skip, ast.If) else norm(skip, 80), getattr(skip, "lineno", f.lineno)))
        if reads:
            # a local that holds the mirrored sequence and loses elements before it is returned
            held = {t.id for st in walk_no_nested(nf) if isinstance(st, ast.Assign) and provider_reads(list(ast.walk(st.value))) for t in st.targets if isinstance(t, ast.Name)}
            for st in walk_no_nested(nf):
                if isinstance(st, ast.Call) and isinstance(st.func, ast.Attribute) and st.func.attr in _DROPPING_METHODS and isinstance(st.func.value, ast.Name) and st.func.value.id in held:
                    bad.append((norm(st, 100), st.lineno))
                if isinstance(st, ast.Delete) and any(isinstance(t, ast.Subscript) and isinstance(t.value, ast.Name) and t.value.id in held for t in st.targets):
                    bad.append((norm(st, 100), st.lineno))
    return n_reads, bad


# --------------------------------------------------------------------------- round 3: declared types vs accessors
class _ExpandAccessors(ast.NodeTransformer):
    """Replace `cls.input_data_type()` / `cls.output_data_type()` by what the class's own accessor returns."""

    def __init__(self, returns: Dict[str, ast.AST]):
        self.returns = returns
        self.changed = False

    def visit_Call(self, node: ast.Call):
        self.generic_visit(node)
        if not node.args and not node.keywords and isinstance(node.func, ast.Attribute) and isinstance(node.func.value, ast.Name) and node.func.value.id == "cls" and node.func.attr in self.returns:
            self.changed = True
            return clone(self.returns[node.func.attr])
        return node


def expand_accessors(e: ast.AST, returns: Dict[str, ast.AST]) -> str:
    cur = clone(e)
    for _ in range(4):
        tr = _ExpandAccessors(returns)
        wrapped = ast.Expression(body=cur)
        wrapped = tr.visit(wrapped)
        cur = wrapped.body
        if not tr.changed:
            break
    return ast.unparse(cur)


def _type_of_entry(v: ast.AST) -> ast.AST:
    """The type expression behind a metadata entry: `T.__name__`, `getattr(T, "__name__", ..)`, `str(..)`, or the literal
    name of a type."""
    while True:
        if isinstance(v, ast.Attribute) and v.attr in ("__name__", "__qualname__"):
            v = v.value
        elif isinstance(v, ast.Call) and isinstance(v.func, ast.Name) and v.func.id == "getattr" and len(v.args) >= 2 and isinstance(v.args[1], ast.Constant) and v.args[1].value in ("__name__", "__qualname__"):
            v = v.args[0]
        elif isinstance(v, ast.Call) and isinstance(v.func, ast.Name) and v.func.id == "str" and len(v.args) == 1:
            v = v.args[0]
        else:
            break
    if isinstance(v, ast.Constant) and isinstance(v.value, str) and v.value.isidentifier():
        return ast.Name(id=v.value, ctx=ast.Load())
    return v


def metadata_entries(f: ast.AST, key: str) -> List[Tuple[ast.AST, ast.AST]]:
    """(value, statement) of every write of metadata entry *key* in *f*: dict displays, `d[key] = v`, `dict(key=v)`,
    `d.update(key=v)`."""
    out: List[Tuple[ast.AST, ast.AST]] = []
    for n in walk_no_nested(f):
        if isinstance(n, ast.Dict):
            for k, v in zip(n.keys, n.values):
                if isinstance(k, ast.Constant) and k.value == key:
                    out.append((v, n))
        elif isinstance(n, ast.Assign) and any(isinstance(t, ast.Subscript) and isinstance(t.slice, ast.Constant) and t.slice.value == key for t in n.targets):
            out.append((n.value, n))
        elif isinstance(n, ast.Call) and (call_name(n) == "dict" or call_attr(n) in ("update", "setdefault")):
            for kw in n.keywords:
                if kw.arg == key:
                    out.append((kw.value, n))
            if call_attr(n) == "setdefault" and len(n.args) == 2 and isinstance(n.args[0], ast.Constant) and n.args[0].value == key:
                out.append((n.args[1], n))
    return out


def _calls_parent_metadata(f: ast.AST) -> bool:
    return any(isinstance(c, ast.Call) and isinstance(c.func, ast.Attribute) and c.func.attr == "_define_metadata" and isinstance(c.func.value, ast.Call) and isinstance(c.func.value.func, ast.Name) and c.func.value.func.id == "super" for c in walk_no_nested(f))


# --------------------------------------------------------------------------- round 4: metadata builders and absent values
_NULLABLE_CALLS = ("inspect.getdoc", "getdoc", "inspect.getmodule", "inspect.getsourcefile", "inspect.getcomments")
_NONE_TOLERANT_FUNCS = ("str", "repr", "bool", "isinstance", "print", "type", "id", "format", "hasattr", "getattr", "hash", "callable", "dict")
_NONE_TOLERANT_METHODS = ("append", "add", "setdefault", "update", "get", "pop", "format", "insert", "debug", "info", "warning", "error", "exception")
_NONE_RAISING_BUILTINS = ("len", "list", "tuple", "set", "frozenset", "sorted", "iter", "next", "int", "float", "sum", "min", "max", "any", "all", "enumerate", "zip", "map", "filter", "reversed", "issubclass", "vars", "abs", "round", "ord")
_NONE_RAISING_MODULES = ("textwrap", "re", "string", "html", "shlex", "os.path", "json", "ast")
_NONE_RAISING_CALLS = ("inspect.cleandoc", "cleandoc", "inspect.signature", "signature", "dedent", "indent")


def _is_none(e: Optional[ast.AST]) -> bool:
    return isinstance(e, ast.Constant) and e.value is None


def nullable_reason(e: ast.AST) -> Optional[str]:
    """Why expression *e* is None for some valid component (None when the analysis has no such reason)."""
    if isinstance(e, ast.Attribute) and e.attr == "__doc__":
        return "a class (or function) that has no docstring of its own has `__doc__` None - docstrings are not inherited by classes"
    if isinstance(e, ast.Call):
        if isinstance(e.func, ast.Name) and e.func.id == "getattr" and len(e.args) == 3 and _is_none(e.args[2]):
            if isinstance(e.args[1], ast.Constant) and e.args[1].value == "__doc__":
                return "a class that has no docstring of its own has `__doc__` None"
            return "the attribute is optional (the default handed to getattr is None)"
        if call_name(e) in _NULLABLE_CALLS:
            return f"`{call_name(e)}` answers None when there is nothing to report"
        if isinstance(e.func, ast.Attribute) and e.func.attr == "get" and (len(e.args) == 1 or (len(e.args) == 2 and _is_none(e.args[1]))) and not e.keywords:
            return "`.get(key)` answers None for a missing key"
        if isinstance(e.func, ast.Attribute) and e.func.attr == "pop" and len(e.args) == 2 and _is_none(e.args[1]):
            return "`.pop(key, None)` answers None for a missing key"
    if isinstance(e, ast.BoolOp) and isinstance(e.op, ast.Or):
        return nullable_reason(e.values[-1])
    if isinstance(e, ast.NamedExpr):
        return nullable_reason(e.value)
    return None


def _same(a: ast.AST, text: str) -> bool:
    try:
        return ast.unparse(a) == text
    except Exception:  # pragma: no cover
        return False


def _mentions(tree: Optional[ast.AST], text: str) -> bool:
    return tree is not None and any(_same(x, text) for x in ast.walk(tree) if isinstance(x, type(ast.parse(text, mode="eval").body)))


def none_dereference(n: ast.AST, fn: ast.AST) -> Optional[str]:
    """The operation that fails when the nullable expression *n* is None (None when every use on the way tolerates it or a
    test of the same expression guards the use)."""
    text = ast.unparse(n)
    child: ast.AST = n
    how: Optional[str] = None
    anc = list(ancestors(n))
    for a in anc:
        if isinstance(a, ast.stmt):
            break
        if isinstance(a, ast.Attribute) and a.value is child and a.attr not in ("__class__", "__doc__", "__eq__", "__ne__", "__hash__", "__repr__", "__str__", "__bool__", "__dir__", "__sizeof__"):
            how = f"attribute `.{a.attr}` of it"
        elif isinstance(a, ast.Subscript) and a.value is child:
            how = "subscript of it"
        elif isinstance(a, ast.Call) and a.func is child:
            how = "call of it"
        elif isinstance(a, ast.Call) and (any(x is child for x in a.args) or any(k.value is child for k in a.keywords)):
            cn = call_name(a) or ""
            if isinstance(a.func, ast.Name) and a.func.id in _NONE_TOLERANT_FUNCS:
                return None
            if isinstance(a.func, ast.Name) and (a.func.id in _NONE_RAISING_BUILTINS or a.func.id in _NONE_RAISING_CALLS):
                how = f"`{a.func.id}(...)` does not accept None"
            elif cn in _NONE_RAISING_CALLS or any(cn.startswith(m + ".") for m in _NONE_RAISING_MODULES):
                how = f"`{cn}(...)` does not accept None"
            else:
                return None  # stored / handed to a callee this analysis does not know: not decided
        elif isinstance(a, ast.BinOp) and (a.left is child or a.right is child):
            if isinstance(a.op, ast.Mod) and a.right is child:
                return None
            how = f"operand of `{norm(a, 60)}`"
        elif isinstance(a, ast.comprehension) and a.iter is child:
            how = "iteration over it"
        elif isinstance(a, ast.Starred) and a.value is child:
            how = "unpacking of it"
        elif isinstance(a, ast.Compare) and isinstance(a.ops[-1], (ast.In, ast.NotIn)) and a.comparators[-1] is child:
            how = "membership test in it"
        elif isinstance(a, ast.BoolOp) and isinstance(a.op, ast.Or) and a.values[-1] is not child:
            return None  # `n or default`
        elif isinstance(a, ast.IfExp) and a.test is child:
            return None
        elif isinstance(a, (ast.BoolOp, ast.IfExp, ast.NamedExpr)):
            child = a
            continue  # the value is handed on as it is
        else:
            return None  # formatted, compared, stored: None is acceptable there
        if how:
            break
        child = a
    else:
        return None
    if how is None:
        st = stmt_of(n)
        if isinstance(st, (ast.For, ast.AsyncFor)) and st.iter is child:
            how = "iteration over it"
        elif isinstance(st, (ast.With, ast.AsyncWith)) and any(i.context_expr is child for i in st.items):
            how = "`with` over it"
        else:
            return None
    # guarded by a test of the same expression: an enclosing if / conditional expression / `and`, a comprehension
    # condition, or an earlier `if` / `assert` in an enclosing block
    child = n
    for a in anc:
        if isinstance(a, ast.If) and not any(x is n for x in ast.walk(a.test)) and _mentions(a.test, text):
            return None
        if isinstance(a, ast.IfExp) and child is not a.test and _mentions(a.test, text):
            return None
        if isinstance(a, ast.BoolOp) and isinstance(a.op, ast.And):
            idx = next(i for i, v in enumerate(a.values) if v is child)
            if any(_mentions(v, text) for v in a.values[:idx]):
                return None
        if isinstance(a, (ast.ListComp, ast.SetComp, ast.GeneratorExp, ast.DictComp)) and any(_mentions(c, text) for g in a.generators for c in g.ifs):
            return None
        for fld in ("body", "orelse", "finalbody"):
            blk = getattr(a, fld, None)
            if isinstance(blk, list) and any(x is child for x in blk):
                for prev in blk[: [i for i, x in enumerate(blk) if x is child][0]]:
                    if isinstance(prev, (ast.If, ast.Assert)) and _mentions(prev.test, text):
                        return None
        child = a
        if a is fn:
            break
    return how


_BROAD_HANDLERS = ("Exception", "BaseException", "AttributeError", "TypeError")


def _swallowing_try(n: ast.AST, fn: ast.AST) -> Optional[Tuple[ast.Try, ast.stmt]]:
    """(nearest enclosing try whose handlers catch the TypeError / AttributeError of a None dereference, the statement of
    its body that holds *n*)."""
    child: ast.AST = n
    for a in ancestors(n):
        if isinstance(a, ast.Try) and any(x is child for x in a.body):
            for h in a.handlers:
                kinds = [dotted_name(x) or "?" for x in (h.type.elts if isinstance(h.type, ast.Tuple) else [h.type])] if h.type is not None else ["BaseException"]
                if any(k.split(".")[-1] in _BROAD_HANDLERS for k in kinds):
                    return a, child  # type: ignore[return-value]
        child = a
        if a is fn:
            break
    return None


def _entries_written(stmts: List[ast.stmt]) -> List[str]:
    out: List[str] = []
    for st in stmts:
        for n in ast.walk(st):
            if isinstance(n, ast.Assign):
                for t in n.targets:
                    if isinstance(t, ast.Subscript) and isinstance(t.slice, ast.Constant) and isinstance(t.slice.value, str) and t.slice.value not in out:
                        out.append(t.slice.value)
            elif isinstance(n, ast.Call) and call_attr(n) in ("update", "setdefault"):
                for kw in n.keywords:
                    if kw.arg and kw.arg not in out:
                        out.append(kw.arg)
                if call_attr(n) == "setdefault" and n.args and isinstance(n.args[0], ast.Constant) and isinstance(n.args[0].value, str) and n.args[0].value not in out:
                    out.append(n.args[0].value)
    return out


def metadata_none_dereferences(f: ast.AST) -> List[Tuple[ast.AST, str, str, str]]:
    """(expression, why it can be None, failing operation, consequence) for every dereference of a possibly-None value in
    the metadata builder *f* (normal form) that costs the class metadata entries or the whole metadata."""
    out = []
    for n in walk_no_nested(f):
        if not isinstance(n, ast.expr):
            continue
        why = nullable_reason(n)
        if why is None or isinstance(n, (ast.BoolOp, ast.NamedExpr)):
            continue
        how = none_dereference(n, f)
        if how is None:
            continue
        tr = _swallowing_try(n, f)
        if tr is None:
            out.append((n, why, how, "the exception leaves `_define_metadata`: get_metadata() raises for that class (SVA100 error; a component class is not registered, SVA107)"))
            continue
        t, holder = tr
        later = t.body[[i for i, x in enumerate(t.body) if x is holder][0]:]
        lost = _entries_written(later)
        if lost:
            out.append((n, why, how, f"the handler of the enclosing `try` swallows the exception and the entries written from this statement on - {', '.join(repr(k) for k in lost)} - are silently missing from the class metadata"))
    return out


# --------------------------------------------------------------------------- round 7: who publishes what a generated processor stores on itself
def _is_receiver_object(e: ast.AST, recv: str) -> bool:
    """`recv`, `recv.__class__`, `type(recv)`."""
    if isinstance(e, ast.Name):
        return e.id == recv
    if isinstance(e, ast.Attribute) and e.attr == "__class__":
        return _is_receiver_object(e.value, recv)
    if isinstance(e, ast.Call) and isinstance(e.func, ast.Name) and e.func.id == "type" and len(e.args) == 1:
        return _is_receiver_object(e.args[0], recv)
    return False


def receiver_stored_attrs(repo: Repo, tmpl) -> Set[str]:
    """Attribute names that a method of a generated class stores on its receiver (or on the receiver's class) while it
    runs: `self.X = v`, `self.__class__.X = v`, `type(self).X = v`, `setattr(self, "X", v)` - the run-time state a
    generated processor leaves for whoever drives it."""
    out: Set[str] = set()
    for rel, _tname, attrs, _bases, site in tmpl:
        for _attr, f, binding in member_functions(repo, rel, attrs, site):
            if isinstance(f, ast.Lambda) or binding in ("staticmethod", "classmethod", "property"):
                continue
            recv = _first_param(f)
            if not recv:
                continue
            for n in ast.walk(f):
                targets: List[ast.AST] = []
                if isinstance(n, ast.Assign):
                    targets = list(n.targets)
                elif isinstance(n, (ast.AugAssign, ast.AnnAssign)):
                    targets = [n.target]
                elif isinstance(n, ast.Call) and isinstance(n.func, ast.Name) and n.func.id == "setattr" and len(n.args) == 3 and isinstance(n.args[1], ast.Constant) and isinstance(n.args[1].value, str) and _is_receiver_object(n.args[0], recv):
                    out.add(n.args[1].value)
                for t in targets:
                    for x in (t.elts if isinstance(t, (ast.Tuple, ast.List)) else [t]):
                        if isinstance(x, ast.Attribute) and _is_receiver_object(x.value, recv):
                            out.add(x.attr)
    return out


def _is_run_processor(fn: ast.AST, e: ast.AST, recv: str, _seen: Optional[Set[str]] = None) -> bool:
    """`recv.processor`, its class (`.__class__`, `type(..)`), or a local that holds one of them."""
    _seen = _seen if _seen is not None else set()
    if isinstance(e, ast.Attribute) and e.attr == "processor" and isinstance(e.value, ast.Name) and e.value.id == recv:
        return True
    if isinstance(e, ast.Attribute) and e.attr == "__class__":
        return _is_run_processor(fn, e.value, recv, _seen)
    if isinstance(e, ast.Call) and isinstance(e.func, ast.Name) and e.func.id == "type" and len(e.args) == 1:
        return _is_run_processor(fn, e.args[0], recv, _seen)
    if isinstance(e, ast.Name) and e.id not in _seen and e.id != recv:
        _seen.add(e.id)
        vals = assigned_value(fn, e.id)
        return bool(vals) and all(_is_run_processor(fn, v, recv, _seen) for v in vals)
    return False


def publishing_node_classes(repo: Repo, published: Set[str]) -> Set[str]:
    """Node classes one of whose own instance methods (normal form: private helpers inlined, module constants
    substituted) reads, from the processor the node runs, an attribute among *published*."""
    out: Set[str] = set()
    mod = repo.module(NODES)
    for qn, node in mod.defs.items():
        if not (isinstance(node, ast.ClassDef) and "." not in qn):
            continue
        for st in node.body:
            if not isinstance(st, FuncNode) or any(dotted_name(d) in _BINDERS for d in st.decorator_list):
                continue
            nf = nfunc(repo, NODES, f"{qn}.{st.name}")
            recv = _first_param(nf)
            if not recv:
                continue
            for n in ast.walk(nf):
                if isinstance(n, ast.Call) and isinstance(n.func, ast.Name) and n.func.id == "getattr" and len(n.args) >= 2 and isinstance(n.args[1], ast.Constant) and n.args[1].value in published and _is_run_processor(nf, n.args[0], recv):
                    out.add(qn)
                elif isinstance(n, ast.Attribute) and isinstance(n.ctx, ast.Load) and n.attr in published and _is_run_processor(nf, n.value, recv):
                    out.add(qn)
    return out


def run(repo: Repo, R: Report) -> None:
    R.assume(
        "inspect.getattr_static(cls, name) sees a classmethod object exactly when the template binds the name to classmethod(...) / @classmethod (directly or by inheritance from a base that does)",
        "value-level rules (SVA004 returns a type, SVA101 required metadata keys of arbitrary wrapped classes) depend on the wrapped user class and are not decided",
    )
    R.undecided("SVA rules that need values of arbitrary wrapped classes; running validate_components on generated classes")
    names, selector = catalogue_classmethod_names(repo)
    R.extra["catalogue_classmethod_rules"] = sorted(names)
    R.extra["catalogue_dir_scans"] = sorted({qn for qn, _f, _n, _v in selector.scans})

    # ------------------------------------------------------------------ D1
    r_cm = R.rule("C16-D1-template-classmethods", "in every dynamic class template, each attribute the catalogue requires to be a classmethod (names read from contracts/expectations.py, plus every name that the catalogue's dir(cls) scan - *_data_type - selects, decided by evaluating the scan's filters on the attribute name) is bound to a classmethod", 10)
    tmpl = templates(repo)
    if len(tmpl) < 10:
        raise AnalysisError(f"{len(tmpl)} dynamic class templates found (13 confirmed by reading)")
    R.extra["templates"] = len(tmpl)
    n_checked = 0
    for rel, tname, attrs, bases, site in tmpl:
        repo.consulted.add(rel)
        for attr, (node, is_cm) in sorted(attrs.items()):
            by_scan = None if attr in names else selector.requires(attr)
            if attr in names or by_scan:
                n_checked += 1
                why = f"generated classes from this template define `{attr}` as a plain function / value: the catalogue reports an error-level diagnostic (SVA001-012) for every class it generates"
                if by_scan and not is_cm:
                    why = f"the name scan of `{EXP}:{by_scan}` selects the attribute name `{attr}` (every name it takes from dir(cls) must be bound to a classmethod), and this template binds `{attr}` to a plain value / function: every class generated from it gets an error-level diagnostic - the name filter of the catalogue and the attribute names of the templates have to agree"
                R.check(is_cm, r_cm, rel, tname, f"{attr} is a classmethod", why, getattr(node, "lineno", 0))
    if n_checked < 10:
        raise AnalysisError(f"only {n_checked} catalogue-relevant template attributes found")
    # SVA241 / SVA250 on templates
    r_shape = R.rule("C16-D1-template-shapes", "context-processor templates do not override operate_context (SVA241); _process_logic templates take no `context` parameter and no ContextType annotation (SVA250); injected/suppressed key providers return list expressions (SVA104/105)", 8)
    for rel, tname, attrs, bases, site in tmpl:
        is_cp = any(b.split(".")[-1] == "ContextProcessor" for b in bases)
        if is_cp:
            R.check("operate_context" not in attrs, r_shape, rel, tname, "no operate_context override", "a generated ContextProcessor overrides operate_context (SVA241 error)", getattr(site, "lineno", 0))
        pl = attrs.get("_process_logic")
        if pl is not None:
            fnode = pl[0]
            f = None
            if isinstance(fnode, FuncNode):
                f = fnode
            else:
                v = fnode.value if isinstance(fnode, ast.Assign) else fnode
                if isinstance(v, ast.Name):
                    scope = enclosing_function(site) or site
                    f = next((d for d in ast.walk(scope) if isinstance(d, FuncNode) and d.name == v.id), None)
            if f is not None:
                params = [a.arg for a in f.args.args + f.args.kwonlyargs]
                anns = [ast.unparse(a.annotation) for a in f.args.args + f.args.kwonlyargs if a.annotation is not None]
                ok = "context" not in params and not any("ContextType" in a for a in anns)
                R.check(ok, r_shape, rel, tname, f"_process_logic({', '.join(params)})", "a generated _process_logic accepts `context` / ContextType (SVA250 error)", f.lineno)
        for prov in ("get_created_keys", "get_suppressed_keys", "context_keys", "injected_context_keys"):
            pv = attrs.get(prov)
            if pv is not None and isinstance(pv[0], FuncNode):
                rets = [n for n in walk_no_nested(pv[0]) if isinstance(n, ast.Return) and n.value is not None]
                ok = all(isinstance(r.value, (ast.List, ast.ListComp, ast.BinOp, ast.Call, ast.Name)) and not isinstance(r.value, (ast.Set, ast.Tuple, ast.Dict)) for r in rets)
                R.check(ok, r_shape, rel, tname, f"{prov} returns a list", f"`{prov}` of generated classes does not return a list (SVA104/105 error)", pv[0].lineno)
    # super() anchors and SVA100 (metadata obtainable) on template members
    r_sup = R.rule("C16-D1-template-super-anchor", "every super(...) call a generated class's method executes starts behind the class that defines the method (zero-argument form inside the template's class statement, or an explicit class): generated classes are subclassed by other factories (slicer of a swept processor, with_context_key), and a walk that starts behind the receiver's run-time class re-enters the same function", 4)
    r_meta = R.rule("C16-D1-template-metadata", "a template's _define_metadata can be called on the class and yields a dict (SVA100): it is bound as a classmethod and no return value is a non-dict literal / missing", 4)
    for rel, tname, attrs, bases, site in tmpl:
        members = member_functions(repo, rel, attrs, site)
        for attr, f, binding in members:
            p0 = _first_param(f)
            tainted = {p0} if (p0 and binding != "staticmethod") else set()
            for call, where, verdict in super_calls(repo, rel, f, tainted, site):
                wname = getattr(where, "name", "<lambda>")
                why = {
                    "runtime": f"`{ast.unparse(call)}` in `{attr}` of the generated class starts the MRO walk behind the receiver's run-time class: as soon as another factory subclasses the generated class (slicer of a swept processor, context-key-bound variant) the call resolves to this same function again - RecursionError, so get_metadata()/the method fails for the nested configuration (SVA100 error, class not registered)",
                    "no-cell": f"zero-argument `super()` in `{attr}` is evaluated outside the class statement of the generated class (no `__class__` cell, or the factory's own class): the call raises for every generated class",
                }.get(verdict, "")
                R.check(verdict == "", r_sup, rel, f"{tname}.{attr}" if where is f else f"{tname}.{attr} via {wname}", norm(stmt_of(call)), why, call.lineno)
        if "_define_metadata" in attrs:
            node, is_cm = attrs["_define_metadata"]
            fs = [(f, b) for a, f, b in members if a == "_define_metadata"]
            bound_cm = is_cm or (bool(fs) and all(b == "classmethod" for _f, b in fs))
            R.check(bound_cm, r_meta, rel, tname, "_define_metadata is a classmethod", "`_define_metadata` of the generated class is not a classmethod: `cls._define_metadata()` / get_metadata() raise, the catalogue reports SVA100 (error) and the class is never registered", getattr(node, "lineno", 0))
            for f, _b in fs:
                if isinstance(f, ast.Lambda):
                    rets: List[Optional[ast.AST]] = [f.body]
                else:
                    rets = [n.value for n in walk_no_nested(f) if isinstance(n, ast.Return)]
                    if not rets:
                        rets = [None]
                bad = [r for r in rets if _surely_not_dict(r, f)]
                R.check(not bad, r_meta, rel, tname, "_define_metadata returns a dict", f"`_define_metadata` of the generated class returns {('`' + ast.unparse(bad[0]) + '`') if bad and bad[0] is not None else 'nothing'}, not a dict (SVA100 error)", getattr(f, "lineno", 0))
    # the signatures the sweep factory attaches
    # (found by role: the module-level functions of a template's module that construct an `inspect.Signature`)
    n_bs = 0
    for rel_b in sorted({t[0] for t in tmpl}):
        for qn_b, bs in repo.module(rel_b).defs.items():
            if isinstance(bs, FuncNode) and "." not in qn_b and any(isinstance(c, ast.Call) and (call_name(c) or "").split(".")[-1] == "Signature" for c in walk_no_nested(bs)):
                n_bs += 1
                R.check(not any(isinstance(c, ast.Constant) and c.value == "context" for c in ast.walk(bs)), r_shape, rel_b, qn_b, "attached __signature__ has no `context` parameter", "the signature attached to generated _process_logic contains `context` (SVA250 error)", bs.lineno)
    if not n_bs:
        raise AnalysisError("no module-level function that constructs the `inspect.Signature` attached to generated `_process_logic` found in the template modules (anchor `_build_signature` vanished)")

    # ------------------------------------------------------------------ D2
    r_md = R.rule("C16-D2-node-metadata-mirrors-processor", "node classes delegate data types to the wrapped processor: sources take NoDataType and output the processor's output type; sinks and probes take the processor's input type and pass it through; operations delegate both", 12)
    expect = {
        "_PayloadSourceNode": ("NoDataType", "cls.processor.output_data_type()"),
        "_DataSourceNode": ("NoDataType", "cls.processor.output_data_type()"),
        "_PayloadSinkNode": ("cls.processor.input_data_type()", "cls.input_data_type()"),
        "_DataSinkNode": ("cls.processor.input_data_type()", "cls.input_data_type()"),
        "_DataOperationNode": ("cls.processor.input_data_type()", "cls.processor.output_data_type()"),
        "_ProbeNode": ("cls.processor.input_data_type()", "cls.input_data_type()"),
        "_DataOperationContextInjectorProbeNode": (None, "cls.input_data_type()"),
    }
    role = node_classes_by_role(repo)
    for rname, (inp, outp) in expect.items():
        cname = role[rname]
        for meth, want in (("input_data_type", inp), ("output_data_type", outp)):
            if want is None:
                continue
            f0 = repo.func(NODES, f"{cname}.{meth}")
            f = node_method(repo, f"{cname}.{meth}")
            rets = [ast.unparse(n.value) if n.value is not None else "None" for n in walk_no_nested(f) if isinstance(n, ast.Return)]
            is_cm = any(dotted_name(d) == "classmethod" for d in f0.decorator_list)
            R.check(bool(rets) and set(rets) == {want} and is_cm, r_md, NODES, f"{cname}.{meth}", f"@classmethod returning {want}", f"the node wrapper's {meth} does not mirror the processor ({rets}); SVA300-321 report an error for generated node classes", f0.lineno)

    # the metadata block of a node class is guarded by `assert hasattr(cls.processor, "<attr>")`: the asserted
    # attribute must exist on the component kind the class says it wraps, else the block is skipped for every
    # concrete node class and its metadata never carries the mirrored types / injected keys
    r_guard = R.rule("C16-D2-metadata-guard-matches-kind", "an `assert hasattr(cls.processor, X)` guarding a node class's metadata names an attribute that the declared wrapped component kind defines", 6)
    nodes_mod0 = repo.module(NODES)
    for qn, node in sorted(nodes_mod0.defs.items()):
        if not (isinstance(node, ast.ClassDef) and "." not in qn):
            continue
        dm = next((st for st in node.body if isinstance(st, FuncNode) and st.name == "_define_metadata"), None)
        if dm is None:
            continue
        kinds = {v.value for d in ast.walk(dm) if isinstance(d, ast.Dict) for k, v in zip(d.keys, d.values) if isinstance(k, ast.Constant) and k.value == "wraps_component_type" and isinstance(v, ast.Constant)}
        if len(kinds) != 1:
            continue
        kind = next(iter(kinds))
        kdefs = [(m, c) for m, q, c in repo.all_classes() if q == kind]
        if len(kdefs) != 1:
            continue
        km, kc = kdefs[0]
        repo.consulted.add(km.rel)
        for a in ast.walk(dm):
            if isinstance(a, ast.Assert) and isinstance(a.test, ast.Call) and call_name(a.test) == "hasattr" and len(a.test.args) == 2 and isinstance(a.test.args[1], ast.Constant) and "processor" in ast.unparse(a.test.args[0]):
                attr = a.test.args[1].value
                defined = repo.method(km, kc, attr) is not None or any(
                    isinstance(st, (ast.Assign, ast.AnnAssign)) and any(isinstance(t, ast.Name) and t.id == attr for t in (st.targets if isinstance(st, ast.Assign) else [st.target]))
                    for _m, c in repo.mro(km, kc) for st in c.body)
                R.check(defined, r_guard, NODES, f"{qn}._define_metadata", norm(a), f"`{kind}` (the declared wrapped kind) defines no `{attr}`: the assertion fails for every concrete node class, the surrounding handler swallows it, and the node metadata never contains the wrapped component, its data types or its injected keys", a.lineno)

    # ------------------------------------------------------------------ D3
    r_ck = R.rule("C16-D3-created-keys-mirror", "node get_created_keys include the wrapped processor's created keys next to any node-level key, as a list without duplicates", 5)
    f0 = repo.func(NODES, role["_DataOperationNode"] + ".get_created_keys")
    yes, no = returns_reading(node_method(repo, role["_DataOperationNode"] + ".get_created_keys"), "get_created_keys")
    R.check(bool(yes) and not no, r_ck, NODES, role["_DataOperationNode"] + ".get_created_keys", "return cls.processor.get_created_keys()", "operation nodes do not report the keys their processor creates", f0.lineno)
    f0 = repo.func(NODES, role["_ContextProcessorNode"] + ".get_created_keys")
    f = node_method(repo, role["_ContextProcessorNode"] + ".get_created_keys")
    yes, no = returns_reading(f, "get_created_keys")
    R.check(bool(yes) and all(_in_handler(f, r) for r in no), r_ck, NODES, role["_ContextProcessorNode"] + ".get_created_keys", "return cls.processor.get_created_keys()", "context-processor nodes do not report the keys their processor creates", f0.lineno)
    f0 = repo.func(NODES, role["_PayloadSourceNode"] + ".get_created_keys")
    yes, no = returns_reading(node_method(repo, role["_PayloadSourceNode"] + ".get_created_keys"), "injected_context_keys")
    R.check(bool(yes), r_ck, NODES, role["_PayloadSourceNode"] + ".get_created_keys", "return cls.processor.injected_context_keys()", "payload-source nodes do not report the keys their source injects", f0.lineno)
    # every node class that publishes the processor's materialised sequences at run time (reads
    # `_last_created_sequences` in its item processing) must also declare them: its get_created_keys mirrors the
    # processor's keys next to its own context key, without duplicates.  Sibling classes found by that role.
    nodes_mod = repo.module(NODES)
    published = receiver_stored_attrs(repo, tmpl)
    publishers = sorted(publishing_node_classes(repo, published))
    if not publishers:
        raise AnalysisError(f"no node class reads, from the processor it runs, an attribute that a generated processor stores on itself while it processes ({sorted(published)}): anchor of the run-time publication of processor-created sequences vanished")
    for cname in sorted(publishers):
        owner = repo.method(nodes_mod, repo.cls(NODES, cname), "get_created_keys")
        if owner is None:
            R.violation(r_ck, NODES, cname, "get_created_keys", "the node publishes processor-created sequences but has no get_created_keys", 0)
            continue
        oq = qualname_of(owner[1])
        f0 = repo.func(NODES, oq)
        f = node_method(repo, oq)
        yes, no = returns_reading(f, "get_created_keys")
        has_proc = bool(yes) and not no
        all_rets = [n for n in walk_no_nested(f) if isinstance(n, ast.Return)]
        has_key = bool(all_rets) and all(any(isinstance(n, ast.Attribute) and n.attr == "context_key" and isinstance(n.value, ast.Name) and n.value.id == "cls" for n in _flow(f, r.value)) for r in all_rets)
        uniq = False
        for ret in all_rets:
            nodes = _flow(f, ret.value)
            # context_key + [k for k in processor_keys if k != cls.context_key]  /  dedupe over the whole list
            filt = any(isinstance(c, ast.Compare) and len(c.ops) == 1 and "cls.context_key" in slice_text(f, c) and _is_filter(c) == ("drop" if isinstance(c.ops[0], (ast.Eq, ast.In)) else "keep" if isinstance(c.ops[0], (ast.NotEq, ast.NotIn)) else "?") for c in nodes)
            whole = any(isinstance(c, ast.Call) and call_name(c) in ("dict.fromkeys", "set", "sorted") and "cls.context_key" in slice_text(f, c) for c in nodes)
            uniq = uniq or filt or whole
        R.check(has_proc and has_key, r_ck, NODES, f"{cname}.get_created_keys" if oq.startswith(cname) else f"{cname}.get_created_keys (inherited from {oq})", "context_key + processor's created keys", "the node writes the swept processor's <var>_values into the context at run time but declares only its own context key: created keys do not mirror the processor", f0.lineno)
        if has_proc:
            R.check(uniq, r_ck, NODES, f"{cname}.get_created_keys", "no duplicate when a processor key equals context_key", "when the node's context_key equals one of the processor's created keys the node reports a duplicate (SVA104 error)", f0.lineno)
    # a generated class whose created keys are its own keys followed by the wrapped element's keys must not list a key
    # twice (a sweep of a swept element with the same variable name): SVA104 reports duplicates as an error
    sweep_rel = "semantiva/data_processors/parametric_sweep_factory.py"
    n_cat = 0
    for qn, f0 in sorted(repo.module(sweep_rel).defs.items()):
        if not (isinstance(f0, FuncNode) and f0.name == "get_created_keys"):
            continue
        f = clone(normalize(repo, repo.module(sweep_rel), f0, copyprop="all", loops=True))
        _attach_parents(f)
        for ret in [n for n in ast.walk(f) if isinstance(n, ast.Return) and n.value is not None]:
            adds = [b for b in ast.walk(ret.value) if isinstance(b, ast.BinOp) and isinstance(b.op, ast.Add)]
            for b in adds:
                sides = [b.left, b.right]
                wrapped = [x for x in sides if any(isinstance(a, ast.Attribute) and a.attr == "get_created_keys" for a in _flow(f, x))]
                if len(wrapped) != 1:
                    continue
                n_cat += 1
                w = wrapped[0]
                # the filter must test membership in what the list already holds (the other operand), not in anything else
                dedup = any(isinstance(c, (ast.ListComp, ast.GeneratorExp)) and _dedup_only(c) for c in _flow(f, w)) \
                    or any(isinstance(c, ast.Call) and call_name(c) in ("dict.fromkeys", "set", "sorted") for a in ancestors_of(ret.value, b) for c in [a])
                R.check(dedup, r_ck, sweep_rel, qn, "own <var>_values keys + the element's created keys, without duplicates", "the generated class lists its own keys followed by the wrapped element's keys without removing duplicates: a sweep of a swept element that uses the same variable name declares `t_values` twice, and the node built on it fails SVA104 (duplicate created keys, error)", getattr(f0, "lineno", 0))
    if n_cat == 0:
        R.note("no generated get_created_keys concatenates own keys with the element's keys")
    # SVA107: registry must be able to answer membership for every live generated class
    r_reg = R.rule("C16-D3-registry-coherence", "every generated component class is registered under its component_type in a per-class (not per-name) container, so the registry-coherence rule holds for all live generated classes", 2)
    # (found by role: the metaclass hook of the component module that files the class being created in a container)
    meta_hooks = [(q, st) for m_, q, c_ in repo.all_classes() if m_.rel == COMP and any((dotted_name(b) or "").split(".")[-1] in ("type", "ABCMeta") for b in c_.bases)
                  for st in c_.body if isinstance(st, FuncNode) and st.name in ("__init__", "__new__") and any(isinstance(x, ast.Call) and call_attr(x) in ("add", "append", "setdefault") for x in ast.walk(st))]
    if len(meta_hooks) != 1:
        raise AnalysisError(f"{len(meta_hooks)} metaclass hooks that file the class being created in a registry found in {COMP} (one confirmed by reading)")
    mi_q, mi = meta_hooks[0][0] + "." + meta_hooks[0][1].name, meta_hooks[0][1]
    txt = ast.unparse(mi)
    keyed_by_name = any(isinstance(n, ast.Assign) and any(isinstance(t, ast.Subscript) and not isinstance(t.slice, ast.Name) or (isinstance(t, ast.Subscript) and isinstance(t.slice, ast.Name) and t.slice.id != "cat") for t in n.targets) for n in ast.walk(mi)) and ("__qualname__" in txt or "__name__" in txt)
    R.check(not keyed_by_name and ".add(cls)" in txt or ".append(cls)" in txt, r_reg, COMP, mi_q, "registry.setdefault(component_type, <set>).add(cls)", "classes are registered under their (shared) qualified name: generated classes with the same name evict each other and fail SVA107", mi.lineno)
    # (found by role: the check function that the catalogue registers under the published rule code SVA107)
    coh_checks = sorted({a.id for c in ast.walk(repo.module(EXP).tree) if isinstance(c, ast.Call) and call_name(c) == "RuleSpec" and any(isinstance(x, ast.Constant) and x.value == "SVA107" for x in list(c.args[:1]) + [k.value for k in c.keywords if k.arg == "code"])
                         for a in list(c.args) + [k.value for k in c.keywords] if isinstance(a, ast.Name) and isinstance(repo.module(EXP).defs.get(a.id), FuncNode)})
    if len(coh_checks) != 1:
        raise AnalysisError(f"contract catalogue: {len(coh_checks)} check functions registered under rule code SVA107 found (one confirmed by reading)")
    rc = repo.module(EXP).defs[coh_checks[0]]
    R.check("get_component_registry()" in ast.unparse(rc) and "cls not in" in ast.unparse(rc), r_reg, EXP, coh_checks[0], "membership test against get_component_registry()", "the coherence rule no longer consults the registry", rc.lineno)

    _round3(repo, R, tmpl)
    _round4(repo, R, tmpl)
    _round5(repo, R, tmpl)
    _round6(repo, R, tmpl)
    _round7(repo, R, tmpl)
    _round8(repo, R, tmpl)


def _round3(repo: Repo, R: Report, tmpl) -> None:
    nodes_mod = repo.module(NODES)

    # ------------------------------------------------------------------ SVA250 must not reach adapters that mirror a source/sink signature
    r_app = R.rule("C16-D1-sva250-exempts-mirrored-signature", "a generated class whose `_process_logic.__signature__` mirrors a method of the wrapped IO class (whose `context` parameter the framework supports and forwards) is outside the applicability test of SVA250 in the catalogue: evaluated on the template's facts (component_type it declares, names along its MRO), one of the rule's early exits is taken", 2)
    sva_cands = [q for q in catalogue_checks(repo) if {"_process_logic", "context"} <= {c.value for c in ast.walk(repo.module(EXP).defs[q]) if isinstance(c, ast.Constant) and isinstance(c.value, str)}]
    if len(sva_cands) != 1:
        raise AnalysisError(f"contract catalogue: {len(sva_cands)} registered checks that inspect `_process_logic` for a `context` parameter found (one confirmed by reading: SVA250)")
    sva_src = repo.module(EXP).defs[sva_cands[0]]
    sva = normalize(repo, repo.module(EXP), sva_src, copyprop="all")
    _attach_parents(sva)
    sva_params = _params(sva)
    if len(sva_params) < 2:
        raise AnalysisError("SVA250 rule function no longer takes (cls, metadata)")
    for rel, tname, attrs, bases, site in tmpl:
        if "_process_logic" not in attrs:
            continue
        factory = enclosing_function(site)
        if factory is None:
            continue
        members = member_functions(repo, rel, attrs, site)
        pl_names = {f.name for a, f, _b in members if a == "_process_logic" and isinstance(f, FuncNode)}
        fparams = set(_params(factory))
        attach: List[Tuple[ast.AST, ast.AST]] = []
        for n in ast.walk(factory):
            if isinstance(n, ast.Call) and call_name(n) == "setattr" and len(n.args) == 3 and isinstance(n.args[0], ast.Name) and n.args[0].id in pl_names and isinstance(n.args[1], ast.Constant) and n.args[1].value == "__signature__":
                attach.append((stmt_of(n), n.args[2]))
            elif isinstance(n, ast.Assign) and any(isinstance(t, ast.Attribute) and t.attr == "__signature__" and isinstance(t.value, ast.Name) and t.value.id in pl_names for t in n.targets):
                attach.append((n, n.value))
        if not attach:
            continue
        # does the template keep the wrapped class's component_type?
        preserved = False
        for a, f, _b in members:
            if a != "_define_metadata" or not isinstance(f, FuncNode):
                continue
            for v, _st in metadata_entries(f, "component_type"):
                for x in _flow_in(f, v):
                    if isinstance(x, ast.Call) and isinstance(x.func, ast.Attribute) and x.func.attr in ("get_metadata", "_define_metadata") and (dotted_name(x.func.value) or "").split(".")[0] in fparams:
                        preserved = True
        own_ctype = next((t for t in (declared_component_type(repo, b.split(".")[-1]) for b in bases) if t), None)
        names = ["<generated>"] + mro_names(repo, bases)
        for st, sig_expr in attach:
            flow = _local_flow(st, sig_expr, factory)
            mirrored = [c for c in flow if isinstance(c, ast.Call) and call_name(c) in ("inspect.signature", "signature") and c.args and isinstance(c.args[0], ast.Attribute) and (dotted_name(c.args[0]) or "").split(".")[0] in fparams]
            if not mirrored:
                continue
            excluded = {c.value for g in flow if isinstance(g, ast.comprehension) for t in g.ifs for c in ast.walk(t) if isinstance(c, ast.Constant) and isinstance(c.value, str)}
            method = mirrored[0].args[0].attr  # type: ignore[attr-defined]
            if "context" in excluded:
                R.ok(r_app, rel, tname, f"signature of {method} mirrored without `context`")
                continue
            kinds: List[str] = []
            child: ast.AST = st
            for a in ancestors(st):
                if isinstance(a, ast.If) and any(b is child for b in a.body) and isinstance(a.test, ast.Call) and call_name(a.test) == "issubclass" and len(a.test.args) == 2 and (dotted_name(a.test.args[0]) or "") in fparams:
                    k = a.test.args[1]
                    kinds = [dotted_name(x) or "?" for x in (k.elts if isinstance(k, ast.Tuple) else [k])]
                    break
                if a is factory:
                    break
                child = a
            if not kinds:
                kinds = sorted({dotted_name(x) or "?" for c in ast.walk(factory) if isinstance(c, ast.Call) and call_name(c) == "issubclass" and len(c.args) == 2 for x in (c.args[1].elts if isinstance(c.args[1], ast.Tuple) else [c.args[1]])})
            for kind in kinds:
                ctype = declared_component_type(repo, kind.split(".")[-1]) if preserved else own_ctype
                if ctype is None:
                    raise AnalysisError(f"component_type of `{kind}` (wrapped by {rel}:{tname}) not found")
                env = {sva_params[0]: _AbsClass(names), sva_params[1]: {"component_type": ctype}}
                applies, seen = rule_applies(sva, "_process_logic", env)
                if applies is None:
                    raise AnalysisError(f"cannot decide whether SVA250 applies to the {kind} adapter of {rel}:{tname}: " + "; ".join(seen))
                R.check(applies is False, r_app, rel, f"{tname} [{kind}]", f"setattr(_process_logic, '__signature__', <signature of {kind}.{method}>)",
                        f"the adapter generated for a {kind} is a {'/'.join(bases)} subclass that declares component_type `{ctype}` and publishes the parameters of `{kind}.{method}` as the signature of `_process_logic`; the wrapped method may take `context` (for sources the factory forwards the observer context to it), but `{EXP}:{sva_cands[0]}` applies SVA250 to this class ({'; '.join(seen)}): the generated processor class of every such configuration gets an error-level diagnostic", getattr(st, "lineno", 0))

    # ------------------------------------------------------------------ declared types == what the accessors answer
    r_decl = R.rule("C16-D2-declared-types-match-accessors", "for every node class, the `input_data_type` / `output_data_type` entries that its (own or inherited, super()-chained) `_define_metadata` writes denote the same type as the class's own `input_data_type()` / `output_data_type()` accessors: the entry calls the accessor on `cls`, or spells the expression the accessor of *this* class returns", 10)
    node_classes = [(qn, c) for qn, c in sorted(nodes_mod.defs.items()) if isinstance(c, ast.ClassDef) and "." not in qn]
    for cname, cnode in node_classes:
        returns: Dict[str, ast.AST] = {}
        for acc in ("input_data_type", "output_data_type"):
            owner = repo.method(nodes_mod, cnode, acc)
            if owner is None or owner[0].rel != NODES:
                continue
            f = node_method(repo, qualname_of(owner[1]))
            rets = [n.value for n in walk_no_nested(f) if isinstance(n, ast.Return) and n.value is not None]
            if len(rets) == 1:
                returns[acc] = rets[0]
        if not returns:
            continue
        # the chain of _define_metadata functions whose writes end up in this class's metadata, most derived first
        chain: List[Tuple[str, ast.AST]] = []
        mro = repo.mro(nodes_mod, cnode)
        for i, (m, c) in enumerate(mro):
            if m.rel != NODES:
                break
            dm = next((st for st in c.body if isinstance(st, FuncNode) and st.name == "_define_metadata"), None)
            if dm is None:
                continue
            chain.append((c.name, dm))
            if not _calls_parent_metadata(dm):
                break
        for key in ("input_data_type", "output_data_type"):
            if key not in returns:
                continue
            for owner_name, dm in chain:
                f = node_method(repo, f"{owner_name}._define_metadata")
                entries = metadata_entries(f, key)
                if not entries:
                    continue
                want = expand_accessors(ast.parse(f"cls.{key}()", mode="eval").body, returns)
                for v, st in entries:
                    got = expand_accessors(type_name_rendering(repo, nodes_mod, f, v)[0], returns)
                    where = f"{cname}._define_metadata" if owner_name == cname else f"{cname}._define_metadata (from {owner_name})"
                    R.check(got == want, r_decl, NODES, where, f"metadata['{key}'] = {norm(v, 80)}",
                            f"generated `{cname}` classes declare {key} `{got}` in their metadata while `{cname}.{key}()` - what the pipeline type check and the node itself use - answers `{want}`: the declared types of the node wrapper do not mirror its contract whenever the two differ (an operation whose output type is not its input type)", getattr(st, "lineno", 0) or dm.lineno)
                break  # the most derived writer wins

    # ------------------------------------------------------------------ adapters hand the wrapped class's keys on, unfiltered
    r_unf = R.rule("C16-D3-adapter-keys-unfiltered", "a key provider of a generated class (get_created_keys / context_keys / injected_context_keys) that is computed from the wrapped class's provider hands that sequence on without dropping elements; where the factory tests that the wrapped class has the provider, the generated method reads it", 3)
    providers: List[Tuple[str, str, str, ast.AST]] = []
    for rel, tname, attrs, bases, site in tmpl:
        for attr, f, _b in member_functions(repo, rel, attrs, site):
            if attr in PROVIDERS:
                providers.append((rel, tname, attr, f))
    # class attributes handed to _create_class(...) by the node factory
    for mod in repo.modules.values():
        if mod.rel.startswith(("semantiva/examples/", "semantiva/contracts/")):
            continue
        for c in [n for n in ast.walk(mod.tree) if isinstance(n, ast.Call) and call_attr(n) == "_create_class"]:
            for kw in c.keywords:
                if kw.arg in PROVIDERS:
                    fake = {kw.arg: (kw.value, False)}
                    encl = enclosing_function(c)
                    for attr, f, _b in member_functions(repo, mod.rel, fake, c):
                        providers.append((mod.rel, f"{qualname_of(encl) if encl is not None else '?'} -> _create_class(...)", attr, f))
    for rel, tname, attr, f in providers:
        n_reads, bad = mirrored_unfiltered(repo, rel, f)
        if not n_reads:
            continue
        repo.consulted.add(rel)
        R.check(not bad, r_unf, rel, f"{tname}.{attr}", f"{attr} hands the wrapped provider's keys on",
                f"`{attr}` of the generated class drops elements of the wrapped class's keys ({bad[0][0] if bad else ''}): the adapter declares fewer created keys than the class it adapts, and than the node class built over the raw class - created keys of node and generated processor no longer mirror each other", bad[0][1] if bad else getattr(f, "lineno", 0))
    for rel, tname, attrs, bases, site in tmpl:
        factory = enclosing_function(site)
        if factory is None:
            continue
        member_defs = {id(f): a for a, f, _b in member_functions(repo, rel, attrs, site)}
        for n in ast.walk(factory):
            if isinstance(n, ast.If) and isinstance(n.test, ast.Call) and call_name(n.test) == "hasattr" and len(n.test.args) == 2 and isinstance(n.test.args[1], ast.Constant) and n.test.args[1].value in PROVIDERS:
                for d in n.body:
                    if isinstance(d, FuncNode) and member_defs.get(id(d)) in PROVIDERS:
                        n_reads, _bad = mirrored_unfiltered(repo, rel, d)
                        R.check(n_reads > 0, r_unf, rel, f"{tname}.{member_defs[id(d)]}", f"under `{norm(n.test, 80)}` the generated method reads the wrapped provider", f"the factory found `{n.test.args[1].value}` on the wrapped class but the generated `{member_defs[id(d)]}` does not return it: the adapter's created keys do not mirror the class it adapts", d.lineno)


def _round4(repo: Repo, R: Report, tmpl) -> None:
    nodes_mod = repo.module(NODES)

    # ------------------------------------------------------------------ metadata builders survive absent optional values
    r_none = R.rule("C16-D2-metadata-tolerates-absent-values", "the `_define_metadata` of every node class and of every generated class does not dereference a value that is None for some valid component (`X.__doc__` of a class without a docstring, `getattr(.., None)`, `.get(key)`): such a dereference raises for exactly those configurations, and either the handler around the mirrored entries swallows it - the node metadata then lacks input_data_type / output_data_type / injected_context_keys although the accessors answer them (SVA320/321, SVA311) - or get_metadata() fails (SVA100) and the class is not registered (SVA107)", 12)
    builders: List[Tuple[str, str, ast.AST, int]] = []
    for qn, c in sorted(nodes_mod.defs.items()):
        if isinstance(c, ast.ClassDef) and "." not in qn and any(isinstance(st, FuncNode) and st.name == "_define_metadata" for st in c.body):
            builders.append((NODES, f"{qn}._define_metadata", node_method(repo, f"{qn}._define_metadata"), repo.func(NODES, f"{qn}._define_metadata").lineno))
    for rel, tname, attrs, bases, site in tmpl:
        for attr, f, _b in member_functions(repo, rel, attrs, site):
            if attr == "_define_metadata" and isinstance(f, FuncNode):
                nf = clone(normalize(repo, repo.module(rel), f, copyprop="all"))
                _attach_parents(nf)
                builders.append((rel, f"{tname}._define_metadata", nf, f.lineno))
                # closures of the factory that the builder hands the class to (the normaliser does not inline closures)
                seen_h: Set[int] = set()
                for c in [x for x in ast.walk(nf) if isinstance(x, ast.Call) and isinstance(x.func, ast.Name)]:
                    for h in _resolve_callable(repo, rel, c.func.id, f):
                        if isinstance(h, FuncNode) and id(h) not in seen_h and h is not f:
                            seen_h.add(id(h))
                            nh = clone(normalize(repo, repo.module(rel), h, copyprop="all"))
                            _attach_parents(nh)
                            builders.append((rel, f"{tname}._define_metadata via {h.name}", nh, h.lineno))
    for rel, where, nf, line in builders:
        found = metadata_none_dereferences(nf)
        if not found:
            R.ok(r_none, rel, where, "no dereference of a possibly-None value")
            continue
        for n, why, how, cost in found:
            R.violation(r_none, rel, where, norm(stmt_of(n), 110), f"`{norm(n, 80)}` can be None ({why}) and is used where None is not accepted ({how}): for a configuration whose wrapped component has no such value the statement raises; {cost}", getattr(n, "lineno", 0) or line)

    # ------------------------------------------------------------------ metadata is first evaluated while the class is created
    _creation_time_metadata(repo, R, tmpl)


def _explicit_params(f: ast.AST) -> List[str]:
    a = f.args  # type: ignore[attr-defined]
    return [x.arg for x in list(getattr(a, "posonlyargs", [])) + list(a.args) + list(a.kwonlyargs)]


def late_signature_members(factory: ast.AST, cls_var: str, after_line: int) -> List[Tuple[str, ast.stmt]]:
    """(member name, statement) for every `__signature__` the factory attaches to a member of the class bound to *cls_var*
    after the class exists: `C.m.__signature__ = s`, `C.m.__func__.__signature__ = s`, `setattr(C.m, "__signature__", s)`."""
    out: List[Tuple[str, ast.stmt]] = []

    def member_of(e: ast.AST) -> Optional[str]:
        while isinstance(e, ast.Attribute) and e.attr in ("__func__", "__wrapped__"):
            e = e.value
        if isinstance(e, ast.Attribute) and isinstance(e.value, ast.Name) and e.value.id == cls_var:
            return e.attr
        if isinstance(e, ast.Call) and isinstance(e.func, ast.Name) and e.func.id == "getattr" and len(e.args) >= 2 and isinstance(e.args[0], ast.Name) and e.args[0].id == cls_var and isinstance(e.args[1], ast.Constant):
            return str(e.args[1].value)
        return None

    for n in ast.walk(factory):
        if getattr(n, "lineno", 0) <= after_line:
            continue
        if isinstance(n, ast.Assign):
            for t in n.targets:
                if isinstance(t, ast.Attribute) and t.attr == "__signature__":
                    m = member_of(t.value)
                    if m:
                        out.append((m, n))
        elif isinstance(n, ast.Call) and isinstance(n.func, ast.Name) and n.func.id == "setattr" and len(n.args) == 3 and isinstance(n.args[1], ast.Constant) and n.args[1].value == "__signature__":
            m = member_of(n.args[0])
            if m:
                out.append((m, stmt_of(n)))
    return out


def signature_derived_entries(repo: Repo, base_names: List[str], members: Set[str]) -> Dict[str, Tuple[str, str, str]]:
    """{metadata key: (file, function, member)} for the entries that the `_define_metadata` functions along the MRO of the
    template's bases compute from `cls.<member>` (its signature) for a member in *members*."""
    out: Dict[str, Tuple[str, str, str]] = {}
    for b in base_names:
        hit = _class_by_name(repo, b.split(".")[-1])
        if hit is None:
            continue
        for m, c in repo.mro(*hit):
            dm = next((st for st in c.body if isinstance(st, FuncNode) and st.name == "_define_metadata"), None)
            if dm is None:
                continue
            qn = f"{qualname_of(c)}._define_metadata"
            f = clone(nfunc(repo, m.rel, qn, copyprop="all"))
            _attach_parents(f)
            recv = _first_param(f)
            for n in walk_no_nested(f):
                pairs: List[Tuple[str, ast.AST]] = []
                if isinstance(n, ast.Dict):
                    pairs = [(k.value, v) for k, v in zip(n.keys, n.values) if isinstance(k, ast.Constant) and isinstance(k.value, str)]
                elif isinstance(n, ast.Assign):
                    pairs = [(t.slice.value, n.value) for t in n.targets if isinstance(t, ast.Subscript) and isinstance(t.slice, ast.Constant) and isinstance(t.slice.value, str)]
                for key, v in pairs:
                    for x in _flow(f, v):
                        if isinstance(x, ast.Attribute) and x.attr in members and isinstance(x.value, ast.Name) and x.value.id == recv and key not in out:
                            out[key] = (m.rel, qn, x.attr)
            if not _calls_parent_metadata(dm):
                break
    return out


def _is_entry(e: ast.AST, fn: ast.AST, keys: Dict[str, Tuple[str, str, str]], _seen: Optional[Set[str]] = None) -> Optional[str]:
    """The signature-derived metadata key whose value *e* denotes (`X["parameters"]`, `X.get("parameters")`, a local that holds it)."""
    _seen = _seen if _seen is not None else set()
    if isinstance(e, ast.Subscript) and isinstance(e.slice, ast.Constant) and e.slice.value in keys:
        return e.slice.value
    if isinstance(e, ast.Call) and isinstance(e.func, ast.Attribute) and e.func.attr in ("get", "setdefault", "pop") and e.args and isinstance(e.args[0], ast.Constant) and e.args[0].value in keys:
        return e.args[0].value
    if isinstance(e, ast.Name) and e.id not in _seen:
        _seen.add(e.id)
        for v in assigned_value(fn, e.id):
            k = _is_entry(v, fn, keys, _seen)
            if k:
                return k
    return None


def _lookup_guarded(n: ast.AST, fn: ast.AST) -> bool:
    """A membership test or a handler for the lookup error surrounds the partial lookup *n*."""
    child: ast.AST = n
    for a in ancestors(n):
        tests: List[ast.AST] = []
        if isinstance(a, (ast.If, ast.IfExp, ast.While)) and not any(x is n for x in ast.walk(a.test)):
            tests.append(a.test)
        if isinstance(a, (ast.ListComp, ast.SetComp, ast.GeneratorExp, ast.DictComp)):
            tests.extend(c for g in a.generators for c in g.ifs)
        if isinstance(a, ast.BoolOp) and isinstance(a.op, ast.And):
            tests.extend(v for v in a.values if v is not child)
        if any(isinstance(c, ast.Compare) and any(isinstance(o, (ast.In, ast.NotIn)) for o in c.ops) for t in tests for c in ast.walk(t)):
            return True
        if isinstance(a, ast.Try) and any(x is child for x in a.body):
            for h in a.handlers:
                kinds = [dotted_name(x) or "?" for x in (h.type.elts if isinstance(h.type, ast.Tuple) else [h.type])] if h.type is not None else ["BaseException"]
                if any(k.split(".")[-1] in ("KeyError", "LookupError", "Exception", "BaseException") for k in kinds):
                    return True
        for fld in ("body", "orelse"):
            blk = getattr(a, fld, None)
            if isinstance(blk, list) and any(x is child for x in blk):
                for prev in blk[: [i for i, x in enumerate(blk) if x is child][0]]:
                    if isinstance(prev, ast.If) and prev.body and isinstance(prev.body[-1], (ast.Continue, ast.Break, ast.Return)) and any(isinstance(c, ast.Compare) and any(isinstance(o, (ast.In, ast.NotIn)) for o in c.ops) for c in ast.walk(prev.test)):
                        return True
        child = a
        if a is fn:
            break
    return False


def _creation_time_metadata(repo: Repo, R: Report, tmpl) -> None:
    r_ct = R.rule("C16-D1-template-metadata-at-class-creation", "the component metaclass evaluates get_metadata() while a class is being created and registers the class only when that succeeds; a signature that a factory attaches to a member after the class statement is not there yet, so the `_define_metadata` of the generated class makes no partial lookup (hard subscript, one-argument pop, del) - with a key outside the member's own `def` parameters - into a metadata entry that the base class computes from that member's signature", 2)
    # the anchor: metadata is evaluated inside the metaclass, failure means `not registered`
    metas = [(q, c) for q, c in repo.module(COMP).defs.items() if isinstance(c, ast.ClassDef) and any((dotted_name(b) or "").split(".")[-1] in ("type", "ABCMeta") for b in c.bases)]
    evaluated = None
    for q, c in metas:
        init = next((st for st in c.body if isinstance(st, FuncNode) and st.name in ("__init__", "__new__")), None)
        if init is None:
            continue
        for t in [n for n in ast.walk(init) if isinstance(n, ast.Try)]:
            if any(isinstance(x, ast.Call) and call_attr(x) in ("get_metadata", "_define_metadata") for b in t.body for x in ast.walk(b)) and t.handlers:
                evaluated = (q, init, t)
    if evaluated is None:
        R.note("the component metaclass no longer evaluates metadata under a handler while the class is created: creation-time rule not applicable")
        raise AnalysisError("component metaclass: no `try: cls.get_metadata()` in its __init__ (anchor of C16-D1-template-metadata-at-class-creation vanished)")
    mq, minit, mtry = evaluated
    R.ok(r_ct, COMP, f"{mq}.{minit.name}", "get_metadata() evaluated during class creation; a failure leaves the class unregistered")
    for rel, tname, attrs, bases, site in tmpl:
        factory = enclosing_function(site)
        if factory is None:
            continue
        if isinstance(site, ast.ClassDef):
            cls_var: Optional[str] = site.name
        else:
            st = stmt_of(site)
            cls_var = st.targets[0].id if isinstance(st, ast.Assign) and len(st.targets) == 1 and isinstance(st.targets[0], ast.Name) and st.value is site else None
        if cls_var is None:
            continue
        late = late_signature_members(factory, cls_var, getattr(site, "end_lineno", None) or site.lineno)
        members = member_functions(repo, rel, attrs, site)
        dms = [f for a, f, _b in members if a == "_define_metadata" and isinstance(f, FuncNode)]
        if not late or not dms:
            continue
        late_names = {m for m, _st in late}
        keys = signature_derived_entries(repo, bases, late_names)
        if not keys:
            R.note(f"{rel}:{tname}: signature attached after the class statement to {sorted(late_names)}, no base-class metadata entry derived from it found")
            continue
        for f in dms:
            nf = clone(normalize(repo, repo.module(rel), f, copyprop="all"))
            _attach_parents(nf)
            bad: List[Tuple[ast.AST, str, str]] = []
            for n in ast.walk(nf):
                key_e: Optional[ast.AST] = None
                table: Optional[str] = None
                if isinstance(n, ast.Subscript) and isinstance(n.ctx, (ast.Load, ast.Del)):
                    table = _is_entry(n.value, nf, keys)
                    key_e = n.slice
                elif isinstance(n, ast.Call) and isinstance(n.func, ast.Attribute) and n.func.attr in ("pop", "remove", "index", "move_to_end") and len(n.args) == 1 and not n.keywords:
                    table = _is_entry(n.func.value, nf, keys)
                    key_e = n.args[0]
                if not table or key_e is None:
                    continue
                member = keys[table][2]
                own = next((_explicit_params(mf) for a, mf, _b in members if a == member and isinstance(mf, FuncNode)), [])
                if isinstance(key_e, ast.Constant) and key_e.value in own[1:]:
                    continue
                if _lookup_guarded(n, nf):
                    continue
                bad.append((n, table, member))
            att = {m: st for m, st in late}
            if not bad:
                R.ok(r_ct, rel, f"{tname}._define_metadata", f"no partial lookup into {sorted(keys)} (derived from the signature attached later to {sorted(late_names)})")
            for n, table, member in bad:
                brel, bqn, _m = keys[table]
                R.violation(r_ct, rel, f"{tname}._define_metadata", norm(stmt_of(n), 110),
                            f"`{norm(n, 80)}` looks a key up in metadata entry '{table}', which `{brel}:{bqn}` computes from the signature of `cls.{member}`; the factory attaches that signature only after the class statement (`{norm(att[member], 80)}`, line {getattr(att[member], 'lineno', 0)}), but `{COMP}:{mq}.{minit.name}` calls get_metadata() while the class is being created, when the entry still reflects `def {member}({next((ast.unparse(mf.args) for a, mf, _b in members if a == member and isinstance(mf, FuncNode)), '...')})`: the lookup raises for every configuration that reaches it, the metaclass swallows the exception and the generated class is never registered - the catalogue reports SVA107 (error) for it",
                            getattr(n, "lineno", 0) or f.lineno)


# --------------------------------------------------------------------------- round 5: type-name spelling, registration gate, strict digests
_NAME_ATTRS = ("__name__", "__qualname__")
_TYPE_KEYS = ("input_data_type", "output_data_type")


class _Subst(ast.NodeTransformer):
    def __init__(self, env: Dict[str, ast.AST]):
        self.env = env

    def visit_Name(self, node: ast.Name):
        if isinstance(node.ctx, ast.Load) and node.id in self.env:
            return clone(self.env[node.id])
        return node


def _resolve_expr(f: Optional[ast.AST], e: ast.AST, env: Dict[str, ast.AST], _depth: int = 0) -> ast.AST:
    """*e* with the names of *env* (parameters of an inlined callee) and the single-assignment locals of *f* replaced by
    what they hold."""
    if _depth > 6:
        return e
    table: Dict[str, ast.AST] = {}
    for nm in sorted({x.id for x in ast.walk(e) if isinstance(x, ast.Name) and isinstance(x.ctx, ast.Load)}):
        if nm in env:
            table[nm] = env[nm]
        elif f is not None and nm not in _params(f):
            vals = assigned_value(f, nm)
            if len(vals) == 1 and not any(isinstance(x, ast.Name) and x.id == nm for x in ast.walk(vals[0])):
                table[nm] = _resolve_expr(f, vals[0], env, _depth + 1)
    if not table:
        return e
    return _Subst(table).visit(ast.Expression(body=clone(e))).body


def _helper_targets(repo: Repo, mod, call: ast.Call) -> List[Tuple[object, ast.AST]]:
    """Plain functions (no methods, no decorated ones) of the package that *call* denotes."""
    root = call.func
    while isinstance(root, ast.Attribute):
        root = root.value
    if isinstance(call.func, ast.Attribute) and isinstance(root, ast.Name) and root.id in ("cls", "self"):
        return []
    try:
        targets = list(repo.resolve_call(mod, call))
    except Exception:  # pragma: no cover - resolution is best effort
        targets = []
    if not targets and isinstance(call.func, ast.Name) and isinstance(mod.defs.get(call.func.id), FuncNode):
        targets = [(mod, mod.defs[call.func.id])]
    return [(m, t) for m, t in targets if isinstance(t, FuncNode) and not t.decorator_list and "." not in qualname_of(t)]


def type_name_rendering(repo: Repo, mod, f: Optional[ast.AST], v: ast.AST, env: Optional[Dict[str, ast.AST]] = None, _depth: int = 0) -> Tuple[ast.AST, Optional[str]]:
    """(type expression, how its name is rendered) for a metadata entry that names a data type: '__name__' /
    '__qualname__' (`T.__name__`, `getattr(T, "__name__", ..)`, the first operand of an `or` chain - a class always has
    both attributes, and they are never empty), 'literal' (the name written out), 'str' (str(T)), None (not decided).
    Locals and helper functions (also those of other modules) are looked through."""
    env = env or {}
    if _depth > 8:
        return _resolve_expr(f, v, env), None

    def rec(x: ast.AST) -> Tuple[ast.AST, Optional[str]]:
        return type_name_rendering(repo, mod, f, x, env, _depth + 1)

    if isinstance(v, ast.Attribute) and v.attr in _NAME_ATTRS:
        return _resolve_expr(f, v.value, env), v.attr
    if isinstance(v, ast.Call) and isinstance(v.func, ast.Name) and v.func.id == "getattr" and len(v.args) >= 2 and isinstance(v.args[1], ast.Constant) and v.args[1].value in _NAME_ATTRS:
        return _resolve_expr(f, v.args[0], env), v.args[1].value
    if isinstance(v, ast.Call) and isinstance(v.func, ast.Name) and v.func.id in ("str", "format") and len(v.args) == 1 and not v.keywords:
        t, r = rec(v.args[0])
        return t, (r or "str")
    if isinstance(v, ast.BoolOp) and isinstance(v.op, ast.Or):
        t, r = rec(v.values[0])
        if r in _NAME_ATTRS or r == "literal":
            return t, r
        return _resolve_expr(f, v, env), None
    if isinstance(v, ast.NamedExpr):
        return rec(v.value)
    if isinstance(v, ast.IfExp):
        (t1, r1), (_t2, r2) = rec(v.body), rec(v.orelse)
        if r1 is None or r2 is None:
            return _resolve_expr(f, v, env), None
        return t1, (r1 if r1 == r2 else f"{r1} / {r2}")
    if isinstance(v, ast.Name):
        if v.id in env:
            return type_name_rendering(repo, mod, None, env[v.id], {}, _depth + 1)
        if f is not None and v.id not in _params(f):
            vals = assigned_value(f, v.id)
            if len(vals) == 1:
                return rec(vals[0])
        return v, None
    if isinstance(v, ast.Constant) and isinstance(v.value, str) and v.value.isidentifier():
        return ast.Name(id=v.value, ctx=ast.Load()), "literal"
    if isinstance(v, ast.Call) and not any(isinstance(a, ast.Starred) for a in v.args) and not any(k.arg is None for k in v.keywords):
        targets = _helper_targets(repo, mod, v)
        if len(targets) == 1:
            tm, tf = targets[0]
            nf = normalize(repo, tm, tf, copyprop="all")
            rets = [n for n in walk_no_nested(nf) if isinstance(n, ast.Return) and n.value is not None]
            ps = [a.arg for a in list(getattr(nf.args, "posonlyargs", [])) + list(nf.args.args)]
            if len(rets) == 1 and len(v.args) <= len(ps):
                env2: Dict[str, ast.AST] = {p: _resolve_expr(f, a, env) for p, a in zip(ps, v.args)}
                for k in v.keywords:
                    if k.arg in _params(nf):
                        env2[k.arg] = _resolve_expr(f, k.value, env)
                repo.consulted.add(tm.rel)
                return type_name_rendering(repo, tm, nf, rets[0].value, env2, _depth + 1)
    return _resolve_expr(f, v, env), None


def _accessor_called(nf: ast.AST, inner: ast.AST) -> Optional[Tuple[str, ast.AST]]:
    """(accessor, receiver) when the type expression *inner* is (computed from) a call `<R>.<x>_data_type()` /
    `getattr(<R>, "<x>_data_type")()`."""
    for c in _flow(nf, inner):
        if not isinstance(c, ast.Call):
            continue
        if isinstance(c.func, ast.Attribute) and c.func.attr in _TYPE_KEYS:
            return c.func.attr, c.func.value
        if isinstance(c.func, ast.Call) and isinstance(c.func.func, ast.Name) and c.func.func.id == "getattr" and len(c.func.args) >= 2 and isinstance(c.func.args[1], ast.Constant) and c.func.args[1].value in _TYPE_KEYS:
            return c.func.args[1].value, c.func.args[0]
    return None


def _is_wrapped_processor(nf: ast.AST, e: ast.AST, cls_param: str) -> bool:
    """*e* denotes the `processor` attribute of the linted class: `cls.processor`, `getattr(cls, "processor", ..)`, or a
    local that holds it."""
    for x in _flow(nf, e):
        if isinstance(x, ast.Attribute) and x.attr == "processor" and isinstance(x.value, ast.Name) and x.value.id == cls_param:
            return True
        if isinstance(x, ast.Call) and isinstance(x.func, ast.Name) and x.func.id == "getattr" and len(x.args) >= 2 and isinstance(x.args[0], ast.Name) and x.args[0].id == cls_param and isinstance(x.args[1], ast.Constant) and x.args[1].value == "processor":
            return True
    return False


def catalogue_type_comparisons(repo: Repo) -> List[Tuple[str, ast.AST, str, str, str, bool, ast.Compare]]:
    """(check, its normal form, metadata key, accessor, name attribute, accessor is called on the wrapped processor,
    comparison) for every comparison in the catalogue of a metadata data-type entry with the name of the type that an
    `<x>_data_type()` accessor answers.  The checks are read in deep normal form: a helper that fetches the expected
    name (with its early returns and handlers) is part of the check."""
    mod = repo.module(EXP)
    out: List[Tuple[str, ast.AST, str, str, str, bool, ast.Compare]] = []
    for qn, fn in sorted(mod.defs.items()):
        if not isinstance(fn, FuncNode) or "." in qn:
            continue
        if not any(isinstance(c, ast.Constant) and c.value in _TYPE_KEYS for c in ast.walk(fn)):
            continue
        nf = clone(normalize(repo, mod, fn, copyprop="all", deep=True))
        _attach_parents(nf)
        p0 = _first_param(nf) or "cls"
        for cmp_ in [n for n in walk_no_nested(nf) if isinstance(n, ast.Compare)]:
            sides = [cmp_.left] + list(cmp_.comparators)
            keys: List[str] = []
            others: List[ast.AST] = []
            for s in sides:
                k = None
                if isinstance(s, ast.Call) and isinstance(s.func, ast.Attribute) and s.func.attr == "get" and s.args and isinstance(s.args[0], ast.Constant) and s.args[0].value in _TYPE_KEYS:
                    k = s.args[0].value
                elif isinstance(s, ast.Subscript) and isinstance(s.slice, ast.Constant) and s.slice.value in _TYPE_KEYS:
                    k = s.slice.value
                if k:
                    keys.append(k)
                else:
                    others.append(s)
            if not keys or not others:
                continue
            for o in others:
                for x in _flow(nf, o):
                    attr = None
                    inner: Optional[ast.AST] = None
                    if isinstance(x, ast.Attribute) and x.attr in _NAME_ATTRS:
                        attr, inner = x.attr, x.value
                    elif isinstance(x, ast.Call) and isinstance(x.func, ast.Name) and x.func.id == "getattr" and len(x.args) >= 2 and isinstance(x.args[1], ast.Constant) and x.args[1].value in _NAME_ATTRS:
                        attr, inner = x.args[1].value, x.args[0]
                    if not attr or inner is None:
                        continue
                    acc = _accessor_called(nf, inner)
                    if acc is None:
                        continue
                    for k in keys:
                        if not any(o2[0] == qn and o2[2] == k and o2[3] == acc[0] and o2[4] == attr and o2[6] is cmp_ for o2 in out):
                            out.append((qn, nf, k, acc[0], attr, _is_wrapped_processor(nf, acc[1], p0), cmp_))
    return out


def catalogue_type_name_attrs(repo: Repo) -> Dict[str, Set[Tuple[str, str]]]:
    """{metadata key: {(name attribute, catalogue check)}}: the attribute through which the catalogue names the type that
    a processor's `input_data_type()` / `output_data_type()` answers, in each comparison with the metadata entry *key*."""
    out: Dict[str, Set[Tuple[str, str]]] = {}
    for qn, _nf, k, _acc, attr, _on_proc, _cmp in catalogue_type_comparisons(repo):
        out.setdefault(k, set()).add((attr, qn))
    return out


def _reads_class_name(test: ast.AST, f: ast.AST, cls_var: Optional[str], name_param: Optional[str]) -> Optional[ast.AST]:
    """The sub-expression of *test* (or of a local it reads) that is the name of the class being created."""
    for x in _flow(f, test):
        if isinstance(x, ast.Name) and isinstance(x.ctx, ast.Load) and name_param and x.id == name_param:
            return x
        if isinstance(x, ast.Attribute) and x.attr in _NAME_ATTRS and isinstance(x.value, ast.Name) and x.value.id == cls_var:
            return x
        if isinstance(x, ast.Call) and isinstance(x.func, ast.Name) and x.func.id == "getattr" and len(x.args) >= 2 and isinstance(x.args[0], ast.Name) and x.args[0].id == cls_var and isinstance(x.args[1], ast.Constant) and x.args[1].value in _NAME_ATTRS:
            return x
    return None


def registration_sites(f: ast.AST, cls_var: str) -> List[ast.stmt]:
    """Statements of the metaclass hook *f* that put the class being created into a container (`<reg>.add(cls)`,
    `.append(cls)`, `<reg>[k] = cls`)."""
    out: List[ast.stmt] = []
    for n in walk_no_nested(f):
        if isinstance(n, ast.Call) and isinstance(n.func, ast.Attribute) and n.func.attr in ("add", "append", "insert", "appendleft", "setdefault") and any(isinstance(a, ast.Name) and a.id == cls_var for a in n.args):
            st = stmt_of(n)
            if st not in out:
                out.append(st)  # type: ignore[arg-type]
        elif isinstance(n, ast.Assign) and isinstance(n.value, ast.Name) and n.value.id == cls_var and any(isinstance(t, ast.Subscript) for t in n.targets):
            out.append(n)
    return out


_CATCH_VALUE_ERROR = ("ValueError", "Exception", "BaseException")


def _allow_nan_off(call: ast.Call, fn: ast.AST, mod) -> bool:
    v = kwarg(call, "allow_nan")
    seen = 0
    while isinstance(v, ast.Name) and seen < 4:
        seen += 1
        vals = assigned_value(fn, v.id) or [st.value for st in mod.tree.body if isinstance(st, ast.Assign) and any(isinstance(t, ast.Name) and t.id == v.id for t in st.targets)]
        v = vals[0] if len(vals) == 1 else None
    return isinstance(v, ast.Constant) and not v.value


def strict_json_calls(fn: ast.AST, mod) -> List[ast.Call]:
    """JSON encodings in *fn* that reject the floats inf / nan (`allow_nan=False`): json.dumps / json.dump / JSONEncoder."""
    out = []
    for c in calls_in(fn):
        nm = (call_name(c) or "").split(".")[-1]
        if nm in ("dumps", "dump", "JSONEncoder") and _allow_nan_off(c, fn, mod):
            full = call_name(c) or ""
            if "." not in full:
                target = mod.imports.get(full, "")
                if not target.startswith(("json", "simplejson", "orjson")):
                    continue
            out.append(c)
    return out


def _value_error_caught(node: ast.AST, fn: ast.AST) -> bool:
    """A handler (or `contextlib.suppress`) of *fn* around *node* catches ValueError."""
    child: ast.AST = node
    for a in ancestors(node):
        if isinstance(a, ast.Try) and any(x is child for x in a.body):
            for h in a.handlers:
                kinds = [dotted_name(x) or "?" for x in (h.type.elts if isinstance(h.type, ast.Tuple) else [h.type])] if h.type is not None else ["BaseException"]
                if any(k.split(".")[-1] in _CATCH_VALUE_ERROR for k in kinds):
                    return True
        if isinstance(a, (ast.With, ast.AsyncWith)) and any(x is child for x in a.body):
            for it in a.items:
                ce = it.context_expr
                if isinstance(ce, ast.Call) and (call_name(ce) or "").split(".")[-1] == "suppress" and any((dotted_name(x) or "").split(".")[-1] in _CATCH_VALUE_ERROR for x in ce.args):
                    return True
        if a is fn:
            break
        child = a
    return False


def strict_json_escapes(repo: Repo, mod, fn: ast.AST, _memo: Optional[Dict[int, list]] = None, _stack: Optional[Set[int]] = None, _depth: int = 0) -> List[Tuple[List[str], object, ast.Call, ast.AST]]:
    """(call chain, module, strict encoding call, function that holds it) for every strict JSON encoding in the call
    closure of *fn* whose ValueError no handler on the way up to *fn* catches."""
    _memo = _memo if _memo is not None else {}
    _stack = _stack if _stack is not None else set()
    if id(fn) in _memo:
        return _memo[id(fn)]
    if id(fn) in _stack or _depth > 7:
        return []
    _stack.add(id(fn))
    out: List[Tuple[List[str], object, ast.Call, ast.AST]] = []
    here = f"{mod.rel}:{qualname_of(fn)}"
    for c in strict_json_calls(fn, mod):
        if not _value_error_caught(c, fn):
            out.append(([here], mod, c, fn))
    for c in calls_in(fn):
        try:
            targets = repo.resolve_call(mod, c)
        except Exception:  # pragma: no cover
            targets = []
        for tm, tn in targets:
            if not isinstance(tn, FuncNode) or tn is fn:
                continue
            sub = strict_json_escapes(repo, tm, tn, _memo, _stack, _depth + 1)
            if sub and not _value_error_caught(c, fn):
                for chain, m2, c2, f2 in sub:
                    if all(c2 is not o[2] for o in out):
                        out.append(([here] + chain, m2, c2, f2))
    _stack.discard(id(fn))
    _memo[id(fn)] = out
    return out


def _round5(repo: Repo, R: Report, tmpl) -> None:
    nodes_mod = repo.module(NODES)

    # ------------------------------------------------------------------ both sides spell a type's name the same way
    r_sp = R.rule("C16-D2-type-names-spelled-as-catalogue", "the `input_data_type` / `output_data_type` entries of every node class's metadata name the type through the same attribute (`__name__`) that the catalogue uses when it compares the entry with the wrapped processor's accessor (SVA301 / SVA311 / SVA321) - and that the processors' own metadata use: for a data type defined inside a class or function `__qualname__` differs from `__name__`", 8)
    cat = catalogue_type_name_attrs(repo)
    n_cmp = sum(len(v) for v in cat.values())
    if n_cmp < 3:
        raise AnalysisError(f"contract catalogue: {n_cmp} comparisons of a metadata data-type entry with `<processor>.<x>_data_type().__name__` found (5 confirmed by reading: SVA301, SVA311 x2, SVA321 x2)")
    all_attrs = {a for v in cat.values() for a, _q in v}
    R.extra["catalogue_type_name_attribute"] = sorted(all_attrs)
    for qn, c in sorted(nodes_mod.defs.items()):
        if not (isinstance(c, ast.ClassDef) and "." not in qn and any(isinstance(st, FuncNode) and st.name == "_define_metadata" for st in c.body)):
            continue
        f = node_method(repo, f"{qn}._define_metadata")
        for key in _TYPE_KEYS:
            for v, st in metadata_entries(f, key):
                _t, how = type_name_rendering(repo, nodes_mod, f, v)
                if how is None:
                    R.note(f"{NODES}:{qn}._define_metadata: how metadata['{key}'] = {norm(v, 80)} names the type is not decided")
                    continue
                want = {a for a, _q in cat.get(key, set())} or all_attrs
                by = sorted({q for a, q in cat.get(key, set())} or {q for v2 in cat.values() for _a, q in v2})
                ok = how == "literal" or (len(want) == 1 and how in want)
                R.check(ok, r_sp, NODES, f"{qn}._define_metadata", f"metadata['{key}'] = {norm(v, 80)}",
                        f"generated `{qn}` classes name their declared {key} through `{how}`, while the catalogue (`{EXP}`: {', '.join(by)}) compares the entry with `<processor>.{key}().{'/'.join(sorted(want))}` and the processors' own metadata use that spelling too: for a data type declared inside a class or a function the two differ (`Spectra.Frame` vs `Frame`), the generated node class gets an error-level SVA301/SVA311/SVA321 and its declared types no longer mirror the wrapped processor's", getattr(st, "lineno", 0) or getattr(v, "lineno", 0))

    # ------------------------------------------------------------------ registration is not gated by the class's name
    r_gate = R.rule("C16-D3-registration-not-gated-by-class-name", "the metaclass hook that fills the component registry reaches its registering statement whatever the name of the class being created: names of generated classes are derived from the (arbitrary) name of the wrapped user class, and the catalogue's registry-coherence rule (SVA107) demands every linted class in the registry without looking at its name", 1)
    from ..cfg import CFG

    hooks: List[Tuple[object, str, ast.AST]] = []
    for m, q, c in repo.all_classes():
        if m.rel.startswith(("semantiva/examples/", "tests/")) or not any((dotted_name(b) or "").split(".")[-1] in ("type", "ABCMeta") for b in c.bases):
            continue
        for st in c.body:
            if isinstance(st, FuncNode) and st.name in ("__init__", "__new__", "__init_subclass__"):
                hooks.append((m, f"{q}.{st.name}", st))
    # the catalogue side: does the coherence rule itself look at the class name?
    coh = [(q, fn) for q, fn in repo.module(EXP).defs.items() if isinstance(fn, FuncNode) and "." not in q and any(isinstance(x, ast.Call) and (call_name(x) or "").split(".")[-1] == "get_component_registry" for x in ast.walk(fn)) and any(isinstance(x, ast.Call) and call_name(x) == "_diag" for x in ast.walk(fn))]
    coh_reads_name = any(_reads_class_name(i.test, fn2, _first_param(fn2), None) is not None for _q2, fn2 in coh for i in ast.walk(fn2) if isinstance(i, ast.If))
    n_hooks = 0
    for m, q, src in hooks:
        nf = clone(normalize(repo, m, src, copyprop="all"))
        _attach_parents(nf)
        ps = _explicit_params(nf)
        if not ps:
            continue
        if src.name == "__new__":
            made = [t.id for st in walk_no_nested(nf) if isinstance(st, ast.Assign) and isinstance(st.value, ast.Call) and call_attr(st.value) == "__new__" for t in st.targets if isinstance(t, ast.Name)]
            cls_var = made[0] if made else None
        else:
            cls_var = ps[0]
        name_param = ps[1] if len(ps) > 1 and src.name != "__init_subclass__" else None
        if cls_var is None:
            continue
        regs = registration_sites(nf, cls_var)
        if not regs:
            continue
        n_hooks += 1
        repo.consulted.add(m.rel)
        g = CFG(nf)
        reg_nodes = [n for st in regs for n in g.nodes_for(st)]
        if not reg_nodes:
            raise AnalysisError(f"{m.rel}:{q}: registering statement `{norm(regs[0], 80)}` has no CFG node")
        bad = 0
        for n in g.nodes:
            if n.kind != "if" or n.part is None and not isinstance(n.ast, ast.If):
                continue
            test = n.part if n.part is not None else n.ast.test  # type: ignore[union-attr]
            rd = _reads_class_name(test, nf, cls_var, name_param)
            if rd is None:
                continue
            for lab in ("T", "F"):
                if any(g.dominated_by_edge(t, n.id, lab) for t in reg_nodes):
                    if coh_reads_name:
                        raise AnalysisError(f"{m.rel}:{q} registers a class only when `{norm(test, 100)}` is {'true' if lab == 'T' else 'false'}, and the registry-coherence rule of the catalogue ({', '.join(q2 for q2, _f in coh)}) tests the class name too: whether the two name conditions agree is not decided")
                    bad += 1
                    R.violation(r_gate, m.rel, q, f"if {norm(test, 100)}",
                                f"`{norm(regs[0], 90)}` is reached only when `{norm(test, 100)}` is {'true' if lab == 'T' else 'false'}, and that test reads the name of the class being created (`{norm(rd, 40)}`): the factories name generated classes after the wrapped user class (node classes `<Processor>_<NodeBase>`, IO adapters after the IO class, sweep wrappers `<Element>ParametricSweep`), so for some valid configurations the generated node / processor class is never registered, while `{EXP}`{(':' + coh[0][0]) if coh else ''} (SVA107, error) requires every linted class to be in the registry under its component_type without looking at its name",
                                getattr(test, "lineno", 0) or src.lineno)
                    break
        if not bad:
            R.ok(r_gate, m.rel, q, f"{norm(regs[0], 80)} - no name-dependent guard")
    if not n_hooks:
        raise AnalysisError("no metaclass hook that registers the class being created found (anchor of C16-D3-registration-not-gated-by-class-name vanished)")

    # ------------------------------------------------------------------ metadata builders survive every YAML float
    r_dig = R.rule("C16-D2-metadata-encodes-every-configured-value", "no JSON encoding that rejects inf / nan (`allow_nan=False` raises ValueError) is reached from the `_define_metadata` of a generated class or of a node class without a handler for ValueError on the way: sweep values come from the configuration, `.inf` / `.nan` are valid YAML floats, and an exception that leaves `_define_metadata` costs the generated class its metadata (SVA100) and its registration (SVA107)", 8)
    roots: List[Tuple[object, str, ast.AST]] = []
    for rel, tname, attrs, bases, site in tmpl:
        for attr, f, _b in member_functions(repo, rel, attrs, site):
            if attr == "_define_metadata" and isinstance(f, FuncNode):
                roots.append((repo.module(rel), f"{tname}._define_metadata", f))
    for qn, c in sorted(nodes_mod.defs.items()):
        if isinstance(c, ast.ClassDef) and "." not in qn:
            for st in c.body:
                if isinstance(st, FuncNode) and st.name == "_define_metadata":
                    roots.append((nodes_mod, f"{qn}._define_metadata", st))
    memo: Dict[int, list] = {}
    for m, where, f in roots:
        esc = strict_json_escapes(repo, m, f, memo)
        if not esc:
            R.ok(r_dig, m.rel, where, "no uncaught strict JSON encoding in the call closure")
            continue
        for chain, m2, c2, f2 in esc:
            repo.consulted.add(m2.rel)
            R.violation(r_dig, m2.rel, qualname_of(f2), norm(stmt_of(c2), 110),
                        f"`{norm(c2, 90)}` raises ValueError for a float inf / nan, and no handler between it and `{m.rel}:{where}` catches ValueError (call chain: {' -> '.join(chain)}): a sweep whose value sequence holds `.inf` / `.nan` (valid YAML floats, an open-ended threshold) makes get_metadata() of the generated class raise - SVA100 (error); the metaclass swallows the same exception while the class is created, so the class is never registered (SVA107), and an IO adapter built over it fails the same way",
                        getattr(c2, "lineno", 0))


# --------------------------------------------------------------------------- round 6: catalogue name tests vs configured names; one processor per node
def catalogue_checks(repo: Repo) -> List[str]:
    """Names of the check functions the catalogue registers through RuleSpec(...)."""
    mod = repo.module(EXP)
    checks: List[str] = []
    for c in [n for n in ast.walk(mod.tree) if isinstance(n, ast.Call)]:
        if call_name(c) == "RuleSpec":
            cand = [a for a in list(c.args) + [k.value for k in c.keywords] if isinstance(a, ast.Name) and isinstance(mod.defs.get(a.id), FuncNode)]
            checks.extend(a.id for a in cand if a.id not in checks)
    return checks


def diagnostic_builders(repo: Repo) -> Dict[str, Tuple[int, str]]:
    """{helper of the catalogue module: (index, name) of its severity parameter}: the functions that construct a diagnostic
    whose `severity` is one of their own parameters (found by that role, whatever they are called)."""
    mod = repo.module(EXP)
    out: Dict[str, Tuple[int, str]] = {}
    for qn, fn in mod.defs.items():
        if not isinstance(fn, FuncNode) or "." in qn:
            continue
        ps = _explicit_params(fn)
        for c in calls_in(fn):
            v = kwarg(c, "severity")
            if isinstance(v, ast.Name) and v.id in ps:
                out[qn] = (ps.index(v.id), v.id)
    return out


def error_diagnostics(fn: ast.AST, builders: Dict[str, Tuple[int, str]]) -> List[ast.Call]:
    """Calls in *fn* (normal form, builders kept) that produce an error-level diagnostic."""
    out: List[ast.Call] = []
    for c in [n for n in ast.walk(fn) if isinstance(n, ast.Call)]:
        sev: Optional[ast.AST] = None
        nm = call_attr(c)
        if nm in builders:
            i, pname = builders[nm]
            sev = c.args[i] if i < len(c.args) and not any(isinstance(a, ast.Starred) for a in c.args[: i + 1]) else kwarg(c, pname)
        else:
            sev = kwarg(c, "severity")
        if isinstance(sev, ast.Constant) and sev.value == "error":
            out.append(c)
    return out


def _targets(t: ast.AST) -> Set[str]:
    return {x.id for x in ast.walk(t) if isinstance(x, ast.Name)}


def value_flow(fn: ast.AST, expr: Optional[ast.AST], _seen: Optional[Set[str]] = None) -> List[ast.AST]:
    """Backward value slice of *expr* in *fn*: its own nodes and, for every local it reads, what is assigned or added to
    that local and the sequence it iterates over (loop and comprehension targets, assignment expressions)."""
    if expr is None:
        return []
    _seen = _seen if _seen is not None else set()
    out = list(ast.walk(expr))
    for nm in sorted({x.id for x in out if isinstance(x, ast.Name) and isinstance(x.ctx, ast.Load)}):
        if nm in _seen:
            continue
        _seen.add(nm)
        srcs: List[ast.AST] = list(assigned_value(fn, nm))
        for n in ast.walk(fn):
            if isinstance(n, (ast.For, ast.AsyncFor)) and nm in _targets(n.target):
                srcs.append(n.iter)
            elif isinstance(n, ast.comprehension) and nm in _targets(n.target):
                srcs.append(n.iter)
            elif isinstance(n, ast.AugAssign) and isinstance(n.target, ast.Name) and n.target.id == nm:
                srcs.append(n.value)
            elif isinstance(n, ast.NamedExpr) and n.target.id == nm:
                srcs.append(n.value)
            elif isinstance(n, ast.Assign) and any(isinstance(t, (ast.Tuple, ast.List)) and nm in _targets(t) for t in n.targets):
                srcs.append(n.value)
            elif isinstance(n, ast.Call) and isinstance(n.func, ast.Attribute) and n.func.attr in ("append", "extend", "insert", "add", "update") and isinstance(n.func.value, ast.Name) and n.func.value.id == nm:
                srcs.extend(n.args)
        for v in srcs:
            if not any(v is s for s in out):
                out.extend(value_flow(fn, v, _seen))
    return out


def _const_strings(fn: ast.AST, e: ast.AST) -> Set[str]:
    return {c.value for c in value_flow(fn, e) if isinstance(c, ast.Constant) and isinstance(c.value, str)}


def class_provider_calls(fn: ast.AST, nodes: List[ast.AST], cls_param: str) -> Dict[str, ast.Call]:
    """{method name: call} for the calls among *nodes* that invoke a method of the linted class: `cls.m()`,
    `getattr(cls, "m", ..)()`, or a local bound to one of the two."""
    out: Dict[str, ast.Call] = {}

    def denotes(e: ast.AST, depth: int = 0) -> Set[str]:
        if isinstance(e, ast.Attribute) and isinstance(e.value, ast.Name) and e.value.id == cls_param:
            return {e.attr}
        if isinstance(e, ast.Call) and isinstance(e.func, ast.Name) and e.func.id == "getattr" and len(e.args) >= 2 and isinstance(e.args[0], ast.Name) and e.args[0].id == cls_param:
            if isinstance(e.args[1], ast.Constant) and isinstance(e.args[1].value, str):
                return {e.args[1].value}
            return _const_strings(fn, e.args[1])
        if isinstance(e, ast.Name) and depth < 4:
            res: Set[str] = set()
            for v in assigned_value(fn, e.id):
                res |= denotes(v, depth + 1)
            return res
        if isinstance(e, ast.IfExp):
            return denotes(e.body, depth + 1) | denotes(e.orelse, depth + 1)
        if isinstance(e, ast.BoolOp):
            res = set()
            for v in e.values:
                res |= denotes(v, depth + 1)
            return res
        return set()

    for n in nodes:
        if isinstance(n, ast.Call):
            for m in denotes(n.func):
                out.setdefault(m, n)
    return out


def literal_name_tests(fn: ast.AST, test_nodes: List[ast.AST], cls_param: str) -> List[Tuple[ast.AST, str, str]]:
    """(test, literal, provider method) for every test among *test_nodes* that compares a string computed from the
    return value of a method of the linted class with a string literal (==, in, startswith / endswith)."""
    out: List[Tuple[ast.AST, str, str]] = []

    def lits(e: ast.AST) -> List[str]:
        if isinstance(e, ast.Constant) and isinstance(e.value, str):
            return [e.value]
        if isinstance(e, (ast.Set, ast.Tuple, ast.List)) and e.elts and all(isinstance(x, ast.Constant) and isinstance(x.value, str) for x in e.elts):
            return [x.value for x in e.elts]
        if isinstance(e, ast.Call) and isinstance(e.func, ast.Name) and e.func.id in ("set", "frozenset", "tuple", "list") and len(e.args) == 1:
            return lits(e.args[0])
        return []

    for t in test_nodes:
        pairs: List[Tuple[List[str], ast.AST]] = []
        if isinstance(t, ast.Compare) and all(isinstance(o, (ast.Eq, ast.NotEq, ast.In, ast.NotIn)) for o in t.ops):
            sides = [t.left] + list(t.comparators)
            for i, s in enumerate(sides):
                if lits(s):
                    pairs.extend((lits(s), o) for j, o in enumerate(sides) if j != i and not lits(o))
        elif isinstance(t, ast.Call) and isinstance(t.func, ast.Attribute) and t.func.attr in ("startswith", "endswith") and len(t.args) == 1 and lits(t.args[0]):
            pairs.append((lits(t.args[0]), t.func.value))
        for ls, other in pairs:
            for m in class_provider_calls(fn, value_flow(fn, other), cls_param):
                out.append((t, ls[0], m))
    return out


class _Opaque:
    """An attribute value of a generated class that is known to exist (and is not None); nothing else is known."""


class _AbsTemplate(_AbsClass):
    """A generated class known by the names along its MRO and by the attributes its template (or a base) defines."""

    def __init__(self, names: List[str], defined: Set[str]):
        super().__init__(names)
        self.defined = set(defined)

    def attr(self, name: str):
        if name in self.defined:
            return _Opaque()
        return super().attr(name)


def _used_as_value(y: ast.Name) -> bool:
    """The name is read as a value (a key, a collection of keys), not as an object whose attributes are consulted
    (`X.provider()`, `getattr(X, ..)`, `inspect.signature(X.method)`: names delegated to the wrapped class)."""
    node: ast.AST = y
    for p in ancestors(y):
        if isinstance(p, ast.Call) and call_attr(p) == "cast" and any(a is node for a in p.args):
            node = p
            continue
        if isinstance(p, ast.Attribute) and p.value is node:
            return False
        if isinstance(p, ast.Call) and isinstance(p.func, ast.Name) and p.func.id in ("getattr", "hasattr", "issubclass", "isinstance", "type") and p.args and p.args[0] is node:
            return False
        return True
    return True


def configured_name_providers(repo: Repo, tmpl) -> List[Tuple[str, str, str, ast.AST, str, List[str], Set[str]]]:
    """(file, template, attribute, member function, factory parameter, bases, template attributes) for every classmethod
    of a class template whose returned names are not fixed by the template: the returned value is computed from an
    argument of the factory (a context key taken from the configuration, the wrapped user class)."""
    out = []
    for rel, tname, attrs, bases, site in tmpl:
        factory = enclosing_function(site)
        if factory is None:
            continue
        skip = {"self", "cls"}
        fparams = [p for p in _params(factory) if p not in skip]
        for attr, f, binding in member_functions(repo, rel, attrs, site):
            if binding != "classmethod":
                continue
            rets = [f.body] if isinstance(f, ast.Lambda) else [n.value for n in walk_no_nested(f) if isinstance(n, ast.Return) and n.value is not None]
            own = set(_params(f))
            recv = _first_param(f)
            hit: Optional[str] = None
            for rv in rets:
                nodes = [rv] if isinstance(f, ast.Lambda) else _flow(f, rv)
                if isinstance(f, ast.Lambda):
                    nodes = list(ast.walk(rv))
                free: List[ast.AST] = []
                for x in nodes:
                    if isinstance(x, ast.Name) and isinstance(x.ctx, ast.Load) and x.id not in own and not (not isinstance(f, ast.Lambda) and assigned_value(f, x.id)):
                        free.append(x)
                    elif isinstance(x, ast.Attribute) and isinstance(x.value, ast.Name) and x.value.id == recv and x.attr in attrs and isinstance(attrs[x.attr][0], (ast.Assign, ast.AnnAssign)) and attrs[x.attr][0].value is not None:
                        free.append(attrs[x.attr][0].value)
                for x in free:
                    for y in _flow_in(factory, x):
                        if isinstance(y, ast.Name) and y.id in fparams and hit is None and _used_as_value(y):
                            hit = y.id
            if hit:
                out.append((rel, tname, attr, f, hit, bases, set(attrs)))
    return out


def _defined_along(repo: Repo, bases: List[str], own: Set[str]) -> Set[str]:
    """Attribute names a generated class is known to have: those of its template and the methods of its bases."""
    out = set(own)
    for b in bases:
        hit = _class_by_name(repo, b.split(".")[-1])
        if hit is None:
            continue
        for _m, c in repo.mro(*hit):
            for st in c.body:
                if isinstance(st, FuncNode):
                    out.add(st.name)
                elif isinstance(st, ast.Assign):
                    out |= {t.id for t in st.targets if isinstance(t, ast.Name)}
    return out


def class_creators(repo: Repo) -> Dict[str, Set[str]]:
    """{file: names of its functions that build a class from caller-supplied attributes}: a `**attrs` parameter that
    reaches the namespace of `new_class(..)` / `type(name, bases, ns)`."""
    out: Dict[str, Set[str]] = {}
    for mod in repo.modules.values():
        if mod.rel.startswith(("semantiva/examples/", "semantiva/contracts/", "tests/")):
            continue
        for qn, fn in mod.defs.items():
            if not isinstance(fn, FuncNode) or fn.args.kwarg is None:
                continue
            kw = fn.args.kwarg.arg
            for c in [n for n in ast.walk(fn) if isinstance(n, ast.Call)]:
                is_type3 = isinstance(c.func, ast.Name) and c.func.id == "type" and len(c.args) == 3
                if (is_type3 or call_name(c) in ("types.new_class", "new_class")) and any(isinstance(x, ast.Name) and x.id == kw for x in ast.walk(c)):
                    out.setdefault(mod.rel, set()).add(fn.name)
    return out


def value_roots(g, fn: ast.AST, expr: ast.AST, at: int, _depth: int = 0) -> Dict[str, Set[frozenset]]:
    """{variable: {set of the definitions of it that reach the point where it is read}} for the variables that *expr*,
    evaluated at CFG node *at*, is computed from; a local with one reaching plain assignment is replaced by the variables
    its right-hand side reads *at that assignment* (so a value staged early keeps the definitions that were current then)."""
    from ..cfg import reaching_defs

    out: Dict[str, Set[frozenset]] = {}
    params = set(_params(fn))
    for x in walk_no_nested(expr) if not isinstance(expr, ast.Name) else [expr]:
        if not (isinstance(x, ast.Name) and isinstance(x.ctx, ast.Load)):
            continue
        defs = reaching_defs(g, x.id, at)
        if len(defs) == 1 and x.id not in params and _depth < 8 and defs[0].kind == "stmt" and isinstance(defs[0].ast, ast.Assign) and len(defs[0].ast.targets) == 1 and isinstance(defs[0].ast.targets[0], ast.Name) and defs[0].id != at:
            for k, v in value_roots(g, fn, defs[0].ast.value, defs[0].id, _depth + 1).items():
                out.setdefault(k, set()).update(v)
        else:
            out.setdefault(x.id, set()).add(frozenset(d.id for d in defs))
    return out


def _round6(repo: Repo, R: Report, tmpl) -> None:
    from ..cfg import CFG

    exp_mod = repo.module(EXP)
    # ------------------------------------------------------------------ the catalogue does not reject configured names
    r_nm = R.rule("C16-D1-catalogue-accepts-configured-names", "no error-level rule of the catalogue decides on a comparison of a string literal with names it obtains by calling a method of the linted class, when a class template overrides that method with names computed from the factory's arguments (the context keys a rename / delete / template processor reads, the variables of a sweep, the parameters of a wrapped user class) and the rule reaches that call for the generated class: a valid configuration that happens to use the literal as a key would produce a class that fails the catalogue", 6)
    providers = configured_name_providers(repo, tmpl)
    if len(providers) < 6:
        raise AnalysisError(f"{len(providers)} template classmethods returning names computed from factory arguments found (rename / delete / template processors, sweep wrappers, IO adapters: 20+ confirmed by reading)")
    builders = diagnostic_builders(repo)
    checks = catalogue_checks(repo)
    if len(checks) < 10:
        raise AnalysisError(f"contract catalogue: {len(checks)} check functions registered through RuleSpec(...) found (30+ confirmed by reading)")
    n_err = 0
    # (check, normal form, test, literal, provider method, diagnostic call)
    suspects: List[Tuple[str, ast.AST, ast.AST, str, str, ast.Call]] = []
    for qn in checks:
        src = exp_mod.defs[qn]
        nf = clone(normalize(repo, exp_mod, src, copyprop="all", keep=tuple(builders)))
        _attach_parents(nf)
        ps = _explicit_params(nf)
        if not ps:
            continue
        for d in error_diagnostics(nf, builders):
            n_err += 1
            guards: List[ast.AST] = []
            for a in ancestors(d):
                if isinstance(a, (ast.If, ast.While, ast.IfExp)) and not any(x is d for x in ast.walk(a.test)):
                    guards.append(a.test)
                elif isinstance(a, ast.comprehension):
                    guards.extend(a.ifs)
                elif isinstance(a, (ast.ListComp, ast.SetComp, ast.GeneratorExp)):
                    guards.extend(c for g2 in a.generators for c in g2.ifs)
                if a is nf:
                    break
            tests: List[ast.AST] = []
            for gt in guards:
                for x in value_flow(nf, gt):
                    if isinstance(x, (ast.Compare, ast.Call)) and not any(x is t for t in tests):
                        tests.append(x)
            found = literal_name_tests(nf, tests, ps[0])
            found.sort(key=lambda h: 0 if isinstance(h[0], ast.Compare) and isinstance(h[0].ops[0], (ast.Eq, ast.NotEq)) else 1)
            for t, lit, m in found:
                if not any(s[0] == qn and s[4] == m for s in suspects):
                    suspects.append((qn, nf, t, lit, m, d))
    if n_err < 10:
        raise AnalysisError(f"contract catalogue: {n_err} error-level diagnostics found in the registered checks (40+ confirmed by reading; builders: {sorted(builders)})")
    R.extra["catalogue_name_tests_on_class_methods"] = sorted({f"{q}:{m}" for q, _f, _t, _l, m, _d in suspects})
    for rel, tname, attr, f, fparam, bases, tattrs in providers:
        repo.consulted.add(rel)
        hits = [s for s in suspects if s[4] == attr]
        if not hits:
            R.ok(r_nm, rel, f"{tname}.{attr}", f"names computed from `{fparam}`: no error-level catalogue rule compares them with a literal")
            continue
        ctype = next((t for t in (declared_component_type(repo, b.split(".")[-1]) for b in bases) if t), None)
        for qn, nf, t, lit, m, d in hits:
            if ctype is None:
                raise AnalysisError(f"component_type of the classes generated by {rel}:{tname} not found: whether `{EXP}:{qn}` applies to them is not decided")
            nps = _params(nf)
            env: Dict[str, object] = {nps[0]: _AbsTemplate(["<generated>"] + mro_names(repo, bases), _defined_along(repo, bases, tattrs))}
            if len(nps) > 1:
                env[nps[1]] = {"component_type": ctype}
            applies, seen = rule_applies(nf, m, env)
            if applies is None:
                raise AnalysisError(f"cannot decide whether `{EXP}:{qn}` reaches its call of `{m}` for the classes generated by {rel}:{tname}: " + "; ".join(seen))
            R.check(applies is False, r_nm, EXP, qn, f"{norm(t, 90)} on names from cls.{m}()",
                    f"`{EXP}:{qn}` reports an error-level diagnostic (`{norm(d, 60)}`) depending on `{norm(t, 80)}`, where the tested string comes from `cls.{m}()`; the classes generated by `{rel}:{tname}` (component_type `{ctype}`) override `{m}` with names computed from the factory argument `{fparam}` - configuration keys, not Python parameters - and the rule reaches that call for them ({'; '.join(seen) or 'no early exit applies'}): a valid configuration that uses `{lit}` as such a name (`delete:{lit}`, a template placeholder, a sweep variable) yields a generated class with an error-level diagnostic", getattr(t, "lineno", 0) or getattr(exp_mod.defs[qn], "lineno", 0))

    # ------------------------------------------------------------------ the node class and the node instance wrap one processor
    r_one = R.rule("C16-D2-node-class-and-instance-share-processor", "where a factory fixes an attribute on the generated node class (`processor`, `context_key`, ..) and hands the constructor of that class an argument for the parameter of the same name, both are computed from the same values: every variable the two expressions read holds, where the class attribute is computed, the definition it holds where the constructor argument is computed - the node class's declared types / created keys / metadata are read from the class attribute, the node runs the constructor argument, and a rebinding between the two (a `with_context_key` variant, a resolved class) makes the declaration describe another processor than the one that runs", 6)
    creators = class_creators(repo)
    if not creators:
        raise AnalysisError("no function that builds a class from caller-supplied attributes (`**attrs` reaching new_class / type) found: anchor of C16-D2-node-class-and-instance-share-processor vanished")
    n_sites = 0
    for mod in repo.modules.values():
        if mod.rel.startswith(("semantiva/examples/", "semantiva/contracts/", "tests/")):
            continue
        names = set().union(*creators.values())
        for c in [n for n in ast.walk(mod.tree) if isinstance(n, ast.Call) and call_attr(n) in names]:
            encl = enclosing_function(c)
            if encl is None or encl.name in names:
                continue
            st = stmt_of(c)
            made: Optional[str] = st.targets[0].id if isinstance(st, ast.Assign) and len(st.targets) == 1 and isinstance(st.targets[0], ast.Name) and st.value is c else None
            insts = [x for x in ast.walk(encl) if isinstance(x, ast.Call) and ((made and isinstance(x.func, ast.Name) and x.func.id == made) or x.func is c)]
            if not insts:
                continue
            base_e = kwarg(c, "base_cls") or (c.args[1] if len(c.args) > 1 else None)
            base = _class_by_name(repo, (dotted_name(base_e) or "?").split(".")[-1]) if base_e is not None else None
            init = repo.method(base[0], base[1], "__init__") if base else None
            if init is None:
                continue
            iparams = _explicit_params(init[1])[1:]
            g = CFG(encl)
            for kw in c.keywords:
                if kw.arg is None or kw.arg not in iparams:
                    continue
                for inst in insts:
                    arg = kwarg(inst, kw.arg)
                    idx = iparams.index(kw.arg)
                    if arg is None and idx < len(inst.args) and not any(isinstance(a, ast.Starred) for a in inst.args[: idx + 1]):
                        arg = inst.args[idx]
                    if arg is None:
                        continue
                    at_c, at_i = g.nodes_for(st), g.nodes_for(stmt_of(inst))
                    if not at_c or not at_i:
                        raise AnalysisError(f"{mod.rel}:{qualname_of(encl)}: no CFG node for `{norm(st, 60)}` / `{norm(stmt_of(inst), 60)}`")
                    roots_c = value_roots(g, encl, kw.value, at_c[0])
                    roots_i = value_roots(g, encl, arg, at_i[0])
                    common = sorted(set(roots_c) & set(roots_i))
                    if not common:
                        raise AnalysisError(f"{mod.rel}:{qualname_of(encl)}: class attribute `{kw.arg}={norm(kw.value, 60)}` and constructor argument `{norm(arg, 60)}` read no variable in common: whether they denote the same processor is not decided")
                    n_sites += 1
                    repo.consulted.add(mod.rel)
                    diff = [v for v in common if roots_c[v] != roots_i[v]]
                    what = ""
                    if diff:
                        v = diff[0]
                        ids = sorted(set().union(*roots_i[v]) ^ set().union(*roots_c[v]))
                        redef = g.nodes[ids[0]] if ids else None
                        what = (f"the generated node class gets `{kw.arg}={norm(kw.value, 60)}`, computed from `{v}` as it is bound before that point, while the node instance is constructed with `{norm(arg, 60)}`, computed from `{v}` after `{redef.text()[:90] if redef is not None else 'a rebinding'}`"
                                f"{' (line ' + str(redef.line) + ')' if redef is not None else ''}: what the node class declares (get_created_keys, data types, metadata `wrapped_component` / `injected_context_keys`) is read from the class attribute and describes another processor than the one the node runs - created keys and types of the node wrapper no longer mirror the processor it wraps (a context-key-bound variant declares the unbound class's key)")
                    R.check(not diff, r_one, mod.rel, qualname_of(encl), f"{call_attr(c)}(.., {kw.arg}={norm(kw.value, 50)}) / {norm(inst.func, 30)}({kw.arg}={norm(arg, 50)})", what, getattr(inst, "lineno", 0))
    if n_sites < 6:
        raise AnalysisError(f"only {n_sites} (class attribute, constructor argument) pairs found at the class-creating call sites (11 confirmed by reading)")


# --------------------------------------------------------------------------- round 7: catalogue vs node accessors; partial lookups by advertised names; adapters vs node declarations
def node_accessor_returns(repo: Repo, nodes_mod, cnode: ast.ClassDef) -> Dict[str, ast.AST]:
    """{accessor: the one expression it returns} for the `input_data_type` / `output_data_type` that node class *cnode*
    uses (own or inherited inside nodes.py), in normal form with the receiver spelled `cls`."""
    returns: Dict[str, ast.AST] = {}
    for acc in _TYPE_KEYS:
        owner = repo.method(nodes_mod, cnode, acc)
        if owner is None or owner[0].rel != NODES:
            continue
        f = node_method(repo, qualname_of(owner[1]))
        rets = [n.value for n in walk_no_nested(f) if isinstance(n, ast.Return) and n.value is not None]
        if len(rets) == 1:
            returns[acc] = rets[0]
    return returns


def metadata_chain(repo: Repo, nodes_mod, cnode: ast.ClassDef) -> List[Tuple[str, ast.AST]]:
    """The `_define_metadata` functions whose writes end up in the metadata of node class *cnode*, most derived first."""
    chain: List[Tuple[str, ast.AST]] = []
    for m, c in repo.mro(nodes_mod, cnode):
        if m.rel != NODES:
            break
        dm = next((st for st in c.body if isinstance(st, FuncNode) and st.name == "_define_metadata"), None)
        if dm is None:
            continue
        chain.append((c.name, dm))
        if not _calls_parent_metadata(dm):
            break
    return chain


def node_declared_type(repo: Repo, nodes_mod, cnode: ast.ClassDef, key: str, returns: Dict[str, ast.AST]) -> List[Tuple[str, ast.AST, ast.AST, str]]:
    """(type expression with the class's own accessors expanded, value, statement, owner class) of the writes of
    metadata entry *key* by the most derived `_define_metadata` in the chain of *cnode* that writes it."""
    for owner_name, _dm in metadata_chain(repo, nodes_mod, cnode):
        f = node_method(repo, f"{owner_name}._define_metadata")
        entries = metadata_entries(f, key)
        if entries:
            return [(expand_accessors(type_name_rendering(repo, nodes_mod, f, v)[0], returns), v, st, owner_name) for v, st in entries]
    return []


def node_component_types(repo: Repo, nodes_mod) -> List[Tuple[str, ast.ClassDef, str, Optional[str]]]:
    """(class name, class, component_type literal, wraps_component_type literal) of every node class of nodes.py whose own
    `_define_metadata` fixes its component_type."""
    out = []
    for qn, c in sorted(nodes_mod.defs.items()):
        if not (isinstance(c, ast.ClassDef) and "." not in qn and any(isinstance(st, FuncNode) and st.name == "_define_metadata" for st in c.body)):
            continue
        f = node_method(repo, f"{qn}._define_metadata")
        ctypes = {v.value for v, _st in metadata_entries(f, "component_type") if isinstance(v, ast.Constant) and isinstance(v.value, str)}
        kinds = {v.value for v, _st in metadata_entries(f, "wraps_component_type") if isinstance(v, ast.Constant) and isinstance(v.value, str)}
        if len(ctypes) == 1:
            out.append((qn, c, next(iter(ctypes)), next(iter(kinds)) if len(kinds) == 1 else None))
    return out


def node_classes_by_role(repo: Repo) -> Dict[str, str]:
    """{role: class name in nodes.py} for the node base classes the delegation rules speak about, found by what they
    declare instead of by their names: the class whose `_define_metadata` fixes component_type `<Role>` plays `_<Role>`
    (the literal is what inspection and the catalogue see, the class name is private), and the probe base class is the
    common direct base of the classes that declare to wrap a DataProbe."""
    nodes_mod = repo.module(NODES)
    kinds = node_component_types(repo, nodes_mod)
    out: Dict[str, str] = {}
    for qn, _c, ctype, _k in kinds:
        if ("_" + ctype) in out:
            raise AnalysisError(f"{NODES}: two node classes fix component_type `{ctype}` ({out['_' + ctype]}, {qn})")
        out["_" + ctype] = qn
    probe_bases = [{(dotted_name(b) or "?").split(".")[-1] for b in c.bases} for _qn, c, _ct, k in kinds if k == "DataProbe"]
    common = set.intersection(*probe_bases) if probe_bases else set()
    common = {b for b in common if isinstance(nodes_mod.defs.get(b), ast.ClassDef)}
    if len(common) == 1:
        out["_ProbeNode"] = next(iter(common))
    need = ("_PayloadSourceNode", "_DataSourceNode", "_PayloadSinkNode", "_DataSinkNode", "_DataOperationNode", "_ProbeNode", "_DataOperationContextInjectorProbeNode", "_ContextProcessorNode")
    missing = [r for r in need if r not in out]
    if missing:
        raise AnalysisError(f"{NODES}: no node class found for the roles {missing} (component_type literal of `_define_metadata` / common base of the DataProbe-wrapping classes): anchors of the delegation rules vanished")
    return out


def _lookup_guarded_on(n: ast.AST, fn: ast.AST, same_table) -> bool:
    """A membership test *in the same table*, or a handler for the lookup error, surrounds the partial lookup *n*."""

    def tests_membership(t: ast.AST) -> bool:
        return any(isinstance(c, ast.Compare) and any(isinstance(o, (ast.In, ast.NotIn)) for o in c.ops) and same_table(c.comparators[-1]) for c in ast.walk(t))

    child: ast.AST = n
    for a in ancestors(n):
        tests: List[ast.AST] = []
        if isinstance(a, (ast.If, ast.IfExp, ast.While)) and not any(x is n for x in ast.walk(a.test)):
            tests.append(a.test)
        if isinstance(a, (ast.ListComp, ast.SetComp, ast.GeneratorExp, ast.DictComp)):
            tests.extend(c for g in a.generators for c in g.ifs if not any(x is n for x in ast.walk(c)))
        if isinstance(a, ast.comprehension):
            tests.extend(c for c in a.ifs if not any(x is n for x in ast.walk(c)))
        if isinstance(a, ast.BoolOp) and isinstance(a.op, ast.And):
            tests.extend(v for v in a.values if v is not child)
        if any(tests_membership(t) for t in tests):
            return True
        if isinstance(a, ast.Try) and any(x is child for x in a.body):
            for h in a.handlers:
                kinds = [dotted_name(x) or "?" for x in (h.type.elts if isinstance(h.type, ast.Tuple) else [h.type])] if h.type is not None else ["BaseException"]
                if any(k.split(".")[-1] in ("KeyError", "LookupError", "Exception", "BaseException") for k in kinds):
                    return True
        if isinstance(a, (ast.With, ast.AsyncWith)) and any(x is child for x in a.body):
            for it in a.items:
                ce = it.context_expr
                if isinstance(ce, ast.Call) and (call_name(ce) or "").split(".")[-1] == "suppress" and any((dotted_name(x) or "").split(".")[-1] in ("KeyError", "LookupError", "Exception", "BaseException") for x in ce.args):
                    return True
        for fld in ("body", "orelse"):
            blk = getattr(a, fld, None)
            if isinstance(blk, list) and any(x is child for x in blk):
                for prev in blk[: [i for i, x in enumerate(blk) if x is child][0]]:
                    if isinstance(prev, ast.If) and prev.body and isinstance(prev.body[-1], (ast.Continue, ast.Break, ast.Return, ast.Raise)) and tests_membership(prev.test):
                        return True
        child = a
        if a is fn:
            break
    return False


def advertised_names_outside_signature(repo: Repo, tmpl) -> List[Tuple[str, str, str, str, str, str, List[str]]]:
    """(provider, metadata entry, file, template, factory argument, member, base names): class templates that override a
    name provider with names computed from a factory argument while the metadata entry their base class derives from the
    signature of `<member>` keeps the parameters of the template's own `def <member>(self, **kwargs)` - the factory
    attaches no `__signature__` to it and the template's `_define_metadata` (if any) does not rewrite the entry.  For
    such classes the provider's names are not keys of the entry."""
    out = []
    provs = configured_name_providers(repo, tmpl)
    for rel, tname, attrs, bases, site in tmpl:
        mine = [p for p in provs if p[0] == rel and p[1] == tname]
        if not mine:
            continue
        factory = enclosing_function(site)
        members = member_functions(repo, rel, attrs, site)
        plain = {a: f for a, f, b in members if b == "plain" and isinstance(f, FuncNode)}
        if not plain or factory is None:
            continue
        keys = signature_derived_entries(repo, bases, set(plain))
        if not keys:
            continue
        if any((isinstance(x, ast.Constant) and x.value == "__signature__") or (isinstance(x, ast.Attribute) and x.attr == "__signature__") for x in ast.walk(factory)):
            continue  # the published signature is not the def's: decided by the creation-time rule
        rewritten: Set[str] = set()
        for a, f, _b in members:
            if a == "_define_metadata" and isinstance(f, FuncNode):
                rewritten |= {k for k in keys if metadata_entries(f, k)}
        for entry, (_brel, _bqn, member) in sorted(keys.items()):
            if entry in rewritten:
                continue
            mf = plain[member]
            if mf.args.kwarg is None:
                continue  # no **kwargs: the advertised names cannot reach the member anyway
            for _rel, _tn, attr, _f, fparam, _bases, _tattrs in mine:
                if attr in plain:
                    continue
                out.append((attr, entry, rel, tname, fparam, member, list(bases)))
    return out


def metadata_closure(repo: Repo, nodes_mod, cnode: ast.ClassDef) -> List[Tuple[str, ast.AST, Optional[ast.AST]]]:
    """(qualified name, normal form, call in `_define_metadata` through which it is reached) of the functions of nodes.py
    that run when the metadata of node class *cnode* is computed: the `_define_metadata` chain and the methods it calls
    on `cls` (resolved along the MRO of *cnode*), three levels."""
    out: List[Tuple[str, ast.AST, Optional[ast.AST]]] = []
    seen: Set[str] = set()
    todo: List[Tuple[str, Optional[ast.AST], int]] = [(f"{o}._define_metadata", None, 0) for o, _dm in metadata_chain(repo, nodes_mod, cnode)]
    while todo:
        qn, via, depth = todo.pop(0)
        if qn in seen:
            continue
        seen.add(qn)
        f = node_method(repo, qn)
        out.append((qn, f, via))
        if depth >= 3:
            continue
        for c in ast.walk(f):
            if isinstance(c, ast.Call) and isinstance(c.func, ast.Attribute) and isinstance(c.func.value, ast.Name) and c.func.value.id == "cls":
                owner = repo.method(nodes_mod, cnode, c.func.attr)
                if owner is not None and owner[0].rel == NODES:
                    todo.append((qualname_of(owner[1]), via if via is not None else c, depth + 1))
    return out


class _CanonW(ast.NodeTransformer):
    """Spell the wrapped class `W`: the factory parameter / `cls.processor`; `cast(T, x)` is x."""

    def __init__(self, wname: Optional[str]):
        self.wname = wname

    def visit_Name(self, node: ast.Name):
        return ast.copy_location(ast.Name(id="W", ctx=ast.Load()), node) if self.wname and node.id == self.wname else node

    def visit_Attribute(self, node: ast.Attribute):
        if self.wname is None and node.attr == "processor" and isinstance(node.value, ast.Name) and node.value.id == "cls":
            return ast.copy_location(ast.Name(id="W", ctx=ast.Load()), node)
        self.generic_visit(node)
        return node

    def visit_Call(self, node: ast.Call):
        self.generic_visit(node)
        if call_attr(node) == "cast" and len(node.args) == 2 and not node.keywords:
            return node.args[1]
        return node


def _canon_w(e: ast.AST, wname: Optional[str]) -> str:
    return ast.unparse(_CanonW(wname).visit(ast.Expression(body=clone(e))).body)


def _inline_closure_calls(repo: Repo, rel: str, e: ast.AST, at: ast.AST, depth: int = 0) -> ast.AST:
    """*e* with every argument-less call of a closure / module function that consists of one `return <expr>` replaced by
    that expression (the normaliser leaves closures alone)."""
    if depth > 3:
        return e

    class T(ast.NodeTransformer):
        def visit_Call(self, node: ast.Call):
            self.generic_visit(node)
            if isinstance(node.func, ast.Name) and not node.args and not node.keywords:
                ds = [d for d in _resolve_callable(repo, rel, node.func.id, at) if isinstance(d, FuncNode)]
                if len(ds) == 1 and not _params(ds[0]):
                    body = [st for st in ds[0].body if not (isinstance(st, ast.Expr) and isinstance(st.value, ast.Constant))]
                    if len(body) == 1 and isinstance(body[0], ast.Return) and body[0].value is not None:
                        return _inline_closure_calls(repo, rel, clone(body[0].value), ds[0], depth + 1)
            return node

    return T().visit(ast.Expression(body=clone(e))).body


def possible_returns(stmts: List[ast.stmt], env: Dict[str, object], fn: ast.AST) -> Tuple[List[ast.AST], bool]:
    """(the expressions a run of *stmts* can return under the abstract facts *env*, whether it can fall off the end):
    branches whose test the facts decide are pruned, the others are both followed."""
    out: List[ast.AST] = []

    def split(v: Optional[ast.AST]) -> List[ast.AST]:
        if isinstance(v, ast.IfExp):
            try:
                val: Optional[bool] = bool(abs_eval(v.test, env, fn))
            except _Unknown:
                val = None
            return (split(v.body) if val is not False else []) + (split(v.orelse) if val is not True else [])
        return [v if v is not None else ast.Constant(value=None)]

    for st in stmts:
        if isinstance(st, ast.Return):
            out.extend(split(st.value))
            return out, False
        if isinstance(st, ast.Raise):
            return out, False
        if isinstance(st, ast.If):
            try:
                val: Optional[bool] = bool(abs_eval(st.test, env, fn))
            except _Unknown:
                val = None
            falls = []
            for branch, want in ((st.body, True), (st.orelse, False)):
                if val is None or val is want:
                    r, ft = possible_returns(branch, env, fn)
                    out.extend(r)
                    falls.append(ft)
            if not any(falls):
                return out, False
            continue
        if isinstance(st, ast.Try):
            r, ft = possible_returns(list(st.body) + list(st.orelse), env, fn)
            out.extend(r)
            falls = [ft]
            for h in st.handlers:
                r2, f2 = possible_returns(h.body, env, fn)
                out.extend(r2)
                falls.append(f2)
            if st.finalbody:
                r3, f3 = possible_returns(st.finalbody, env, fn)
                out.extend(r3)
                if not f3:
                    return out, False
            if not any(falls):
                return out, False
            continue
        if isinstance(st, (ast.For, ast.AsyncFor, ast.While, ast.With, ast.AsyncWith)):
            r, _ft = possible_returns(st.body, env, fn)
            out.extend(r)
            if isinstance(st, (ast.For, ast.AsyncFor, ast.While)) and st.orelse:
                r, _ft = possible_returns(st.orelse, env, fn)
                out.extend(r)
    return out, True


def _selected_under(d: ast.AST, factory: ast.AST, env: Dict[str, object]) -> Optional[bool]:
    """Is the definition *d* (nested in *factory*) executed under the facts *env*?  Every enclosing `if` is evaluated."""
    child: ast.AST = d
    res: Optional[bool] = True
    for a in ancestors(d):
        if a is factory:
            break
        if isinstance(a, ast.If):
            in_body = any(x is child for x in a.body)
            in_else = any(x is child for x in a.orelse)
            if in_body or in_else:
                try:
                    val = bool(abs_eval(a.test, env, factory))
                except _Unknown:
                    val = None
                if val is None:
                    res = None
                elif val != in_body:
                    return False
        child = a
    return res


def adapter_sites(repo: Repo) -> List[Tuple[object, ast.AST, str, object, ast.AST, str, ast.Call]]:
    """(module, enclosing function, node base class name, adapter factory module, adapter factory function, its parameter
    that receives the raw class, the class-creating call): places where a node class is declared over a raw class
    (`processor=X` handed to the class creator) while its instance is constructed with `F(X)`, F a function of the
    package - the node declares from X and runs the adapter F builds."""
    out = []
    creators = class_creators(repo)
    names = set().union(*creators.values()) if creators else set()
    for mod in repo.modules.values():
        if mod.rel.startswith(("semantiva/examples/", "semantiva/contracts/", "tests/")):
            continue
        for c in [n for n in ast.walk(mod.tree) if isinstance(n, ast.Call) and call_attr(n) in names]:
            encl = enclosing_function(c)
            if encl is None or encl.name in names:
                continue
            st = stmt_of(c)
            made: Optional[str] = st.targets[0].id if isinstance(st, ast.Assign) and len(st.targets) == 1 and isinstance(st.targets[0], ast.Name) and st.value is c else None
            insts = [x for x in ast.walk(encl) if isinstance(x, ast.Call) and ((made and isinstance(x.func, ast.Name) and x.func.id == made) or x.func is c)]
            base_e = kwarg(c, "base_cls") or (c.args[1] if len(c.args) > 1 else None)
            base = _class_by_name(repo, (dotted_name(base_e) or "?").split(".")[-1]) if base_e is not None else None
            raw = kwarg(c, "processor")
            if not insts or base is None or not isinstance(raw, ast.Name):
                continue
            init = repo.method(base[0], base[1], "__init__")
            iparams = _explicit_params(init[1])[1:] if init else []
            for inst in insts:
                arg = kwarg(inst, "processor")
                if arg is None and "processor" in iparams and iparams.index("processor") < len(inst.args):
                    arg = inst.args[iparams.index("processor")]
                seen = 0
                while isinstance(arg, ast.Name) and arg.id != raw.id and seen < 4:
                    seen += 1
                    vals = assigned_value(encl, arg.id)
                    arg = vals[0] if len(vals) == 1 else None
                if not isinstance(arg, ast.Call):
                    continue
                pos = [i for i, a in enumerate(arg.args) if isinstance(a, ast.Name) and a.id == raw.id]
                kws = [k.arg for k in arg.keywords if k.arg and isinstance(k.value, ast.Name) and k.value.id == raw.id]
                if not pos and not kws:
                    continue
                for tm, tf in repo.resolve_call(mod, arg):
                    if not isinstance(tf, FuncNode):
                        continue
                    ps = _explicit_params(tf)
                    if ps and ps[0] in ("self", "cls") and isinstance(arg.func, ast.Attribute):
                        ps = ps[1:]
                    wparam = kws[0] if kws and kws[0] in ps else (ps[pos[0]] if pos and pos[0] < len(ps) else None)
                    if wparam:
                        out.append((mod, encl, base[1].name, tm, tf, wparam, c))
    return out


def may_reach(fn: ast.AST, node: ast.AST, env: Dict[str, object]) -> Tuple[bool, List[str]]:
    """Can a run of *fn* evaluate *node* for a class with the abstract facts *env*?  False only when a test that the
    facts decide excludes it (an enclosing `if` / conditional expression / `and` / `or`, or an earlier `if <test>:
    return` in an enclosing block); tests the facts do not decide (they concern the wrapped processor) are passable.
    Second value: the deciding tests, for the message."""
    seen: List[str] = []

    def val(t: ast.AST) -> Optional[bool]:
        try:
            v = bool(abs_eval(t, env, fn))
        except _Unknown:
            return None
        seen.append(f"`{norm(t, 100)}` is {v}")
        return v

    def leaves(stmts: List[ast.stmt]) -> bool:
        return bool(stmts) and isinstance(stmts[-1], (ast.Return, ast.Raise, ast.Continue, ast.Break))

    child: ast.AST = node
    for a in ancestors(node):
        if isinstance(a, (ast.If, ast.While)) and not any(x is node for x in ast.walk(a.test)):
            v = val(a.test)
            if v is not None and ((any(x is child for x in a.body) and not v) or (any(x is child for x in a.orelse) and v)):
                return False, seen
        elif isinstance(a, ast.IfExp) and child is not a.test:
            v = val(a.test)
            if v is not None and ((child is a.body and not v) or (child is a.orelse and v)):
                return False, seen
        elif isinstance(a, ast.BoolOp):
            idx = next((i for i, x in enumerate(a.values) if x is child), 0)
            for x in a.values[:idx]:
                v = val(x)
                if v is not None and v != isinstance(a.op, ast.And):
                    return False, seen
        for fld in ("body", "orelse", "finalbody"):
            blk = getattr(a, fld, None)
            if isinstance(blk, list) and any(x is child for x in blk):
                for prev in blk[: [i for i, x in enumerate(blk) if x is child][0]]:
                    if isinstance(prev, ast.If) and (leaves(prev.body) or leaves(prev.orelse)):
                        v = val(prev.test)
                        if v is not None and ((v and leaves(prev.body)) or (not v and leaves(prev.orelse))):
                            return False, seen
        child = a
        if a is fn:
            break
    return True, seen


def _round7(repo: Repo, R: Report, tmpl) -> None:
    nodes_mod = repo.module(NODES)
    exp_mod = repo.module(EXP)
    kinds_of_nodes = node_component_types(repo, nodes_mod)
    if len(kinds_of_nodes) < 6:
        raise AnalysisError(f"{len(kinds_of_nodes)} node classes whose `_define_metadata` fixes a component_type found (10 confirmed by reading)")

    # ------------------------------------------------------------------ the catalogue compares an entry with the accessor the node mirrors
    r_acc = R.rule("C16-D2-catalogue-compares-entry-with-mirrored-accessor", "where a catalogue check compares the `input_data_type` / `output_data_type` entry of a node class's metadata with the name of the type that `<processor>.<x>_data_type()` answers, `<x>_data_type` is the accessor that the node classes the check applies to (decided by evaluating its component_type tests) mirror in that entry (the entry written by `_define_metadata`, with the class's own accessors expanded): otherwise a node class generated for a processor whose two accessors answer different types gets an error-level diagnostic although it declares exactly what the framework's node classes declare", 5)
    comps = [t for t in catalogue_type_comparisons(repo) if t[5]]
    for qn, nf, key, acc, _attr, _on_proc, cmp_ in comps:
        nps = _params(nf)
        if len(nps) < 2:
            raise AnalysisError(f"{EXP}:{qn} no longer takes (cls, metadata)")
        n_app = 0
        for cname, cnode, ctype, _kind in kinds_of_nodes:
            env = {nps[0]: _AbsClass([cname] + [c.name for _m, c in repo.mro(nodes_mod, cnode)][1:]), nps[1]: {"component_type": ctype}}
            applies, _seen = may_reach(nf, cmp_, env)
            if not applies:
                continue
            returns = node_accessor_returns(repo, nodes_mod, cnode)
            declared = node_declared_type(repo, nodes_mod, cnode, key, returns)
            if not declared:
                R.note(f"{NODES}:{cname}: no write of metadata['{key}'] found; `{EXP}:{qn}` applies to it")
                continue
            n_app += 1
            want = f"cls.processor.{acc}()"
            for got, v, _st, owner in declared:
                other = got[len("cls.processor."):-2] if got.startswith("cls.processor.") and got.endswith("()") else None
                R.check(got == want, r_acc, EXP, qn, f"{norm(cmp_, 90)}  [{cname}: metadata['{key}'] = {norm(v, 60)}]",
                        f"`{EXP}:{qn}` applies to `{cname}` classes (component_type `{ctype}`) and compares their metadata entry '{key}' with `<processor>.{acc}().__name__`, while `{NODES}:{owner}._define_metadata` writes that entry from `{got}`"
                        f"{' - the ' + other + ' accessor of the wrapped processor' if other else ''}: a node class generated for a processor that declares both accessors with different types (a probe may declare an `output_data_type`, the catalogue only warns about it) gets an error-level diagnostic from this check although node and processor mirror each other - the accessor the catalogue reads and the accessor the node classes mirror have to be the same",
                        getattr(cmp_, "lineno", 0) or getattr(exp_mod.defs[qn], "lineno", 0))
        if n_app == 0:
            R.note(f"{EXP}:{qn}: the comparison of metadata['{key}'] applies to no node class of {NODES}")

    # ------------------------------------------------------------------ advertised names are not keys of the signature-derived table
    r_tot = R.rule("C16-D2-node-metadata-lookups-total-for-generated-processors", "no function that runs when a node class computes its metadata (`_define_metadata` and the classmethods it calls on `cls`) looks a name obtained from a name provider of the wrapped processor (`get_processing_parameter_names()`, ..) up in a signature-derived entry of the processor's metadata (`parameters`) with a hard subscript, unless a membership test in that entry or a KeyError handler guards it: the rename / delete / template factories generate processors that override the provider with configuration keys while `_process_logic(self, **kwargs)` leaves the entry empty, so the lookup raises for exactly those generated classes and the node class's metadata (created / suppressed / required keys, wrapped component) is lost or replaced by the handler's fallbacks", 6)
    outside = advertised_names_outside_signature(repo, tmpl)
    if not outside:
        raise AnalysisError("no class template that advertises names computed from a factory argument next to a `**kwargs` member found (rename / delete / template context processors confirmed by reading): anchor of C16-D2-node-metadata-lookups-total-for-generated-processors vanished")
    R.extra["providers_advertising_names_outside_the_signature"] = sorted({f"{t[2]}:{t[3]}.{t[0]} !<= {t[1]}" for t in outside})
    for cname, cnode, _ctype, kind in kinds_of_nodes:
        relevant = [t for t in outside if kind is None or kind in mro_names(repo, t[6])]
        if not relevant:
            continue
        entries = {t[1]: (t[2], t[3], t[5]) for t in relevant}
        provs = {t[0] for t in relevant}
        for qn, f, via in metadata_closure(repo, nodes_mod, cnode):
            bad = []
            for n in ast.walk(f):
                if not (isinstance(n, ast.Subscript) and isinstance(n.ctx, ast.Load) and not isinstance(n.slice, (ast.Constant, ast.Slice))):
                    continue
                table = _is_entry(n.value, f, entries)
                if not table:
                    continue
                if not any(isinstance(x, ast.Attribute) and x.attr in ("get_metadata", "_define_metadata") for x in value_flow(f, n.value)):
                    continue
                hit = next((x for x in value_flow(f, n.slice) if isinstance(x, ast.Call) and ((isinstance(x.func, ast.Attribute) and x.func.attr in provs) or (isinstance(x.func, ast.Call) and isinstance(x.func.func, ast.Name) and x.func.func.id == "getattr" and len(x.func.args) >= 2 and isinstance(x.func.args[1], ast.Constant) and x.func.args[1].value in provs))), None)
                if hit is None:
                    continue
                table_text = ast.unparse(n.value)
                if _lookup_guarded_on(n, f, lambda e, t=table_text, tb=table: ast.unparse(e) == t or _is_entry(e, f, {tb: entries[tb]}) == tb):
                    continue
                bad.append((n, table, hit))
            where = qn if qn.startswith(cname + ".") else f"{cname} -> {qn}"
            if not bad:
                R.ok(r_tot, NODES, where, "no unguarded lookup of an advertised name in a signature-derived metadata entry")
                continue
            for n, table, hit in bad:
                trel, tname, member = entries[table]
                pname = hit.func.attr if isinstance(hit.func, ast.Attribute) else hit.func.args[1].value  # type: ignore[union-attr]
                swallowed = via is not None and any(isinstance(a, ast.Try) for a in ancestors(via))
                R.violation(r_tot, NODES, where, norm(stmt_of(n), 110),
                            f"`{norm(n, 70)}` looks up, in the '{table}' entry of the wrapped processor's metadata, a name that comes from `{norm(hit, 60)}`; the classes generated by `{trel}:{tname}` override `{pname}` with configuration keys while their `{member}(self, **kwargs)` leaves '{table}' without those keys: for every rename / delete / template node the lookup raises KeyError, "
                            + ("which the handler around `" + norm(via, 50) + "` in `_define_metadata` swallows - the node class then declares the handler's fallbacks instead of the created / suppressed / required keys and the wrapped component of its processor" if swallowed else "and get_metadata() of the generated node class fails (SVA100; the class is not registered, SVA107)")
                            + ": the created keys the node wrapper declares no longer mirror the processor it wraps",
                            getattr(n, "lineno", 0))

    # ------------------------------------------------------------------ an adapter declares the types of the node class built over the raw class
    r_ad = R.rule("C16-D2-adapter-types-mirror-node-declaration", "where the node factory declares a node class over a raw class X (`processor=X` on the generated class) and runs the adapter `F(X)` in the node instance, every value the adapter's `input_data_type` / `output_data_type` can return for a class of the wrapped kind (the definitions selected by the factory's `issubclass` branches, tests inside them decided where the kind's own attributes decide them) is the expression that the node class's accessor returns over X: sources take NoDataType and answer X's output type, sinks answer X's input type on both sides - otherwise the types the node wrapper declares are not those of the processor it runs", 6)
    sites = adapter_sites(repo)
    if not sites:
        raise AnalysisError("no node class declared over a raw class while its instance runs an adapter built from it found (4 IO node kinds confirmed by reading): anchor of C16-D2-adapter-types-mirror-node-declaration vanished")
    done: Set[Tuple[str, int, str]] = set()
    for mod, encl, bname, tm, tf, wparam, _c in sites:
        if (bname, id(tf), wparam) in done:
            continue
        done.add((bname, id(tf), wparam))
        hit = _class_by_name(repo, bname)
        if hit is None or hit[0].rel != NODES:
            continue
        cnode = hit[1]
        kind = next((k for cn, _c2, _ct, k in kinds_of_nodes if cn == bname), None)
        if kind is None:
            R.note(f"{NODES}:{bname}: wrapped component kind not declared; adapter types not compared")
            continue
        returns = node_accessor_returns(repo, nodes_mod, cnode)
        env: Dict[str, object] = {wparam: _AbsTemplate(mro_names(repo, [kind]), _defined_along(repo, [kind], set()))}
        repo.consulted.add(tm.rel)
        for rel, tname, attrs, _bases, site in tmpl:
            if rel != tm.rel or enclosing_function(site) is not tf:
                continue
            members = member_functions(repo, rel, attrs, site)
            for acc in _TYPE_KEYS:
                if acc not in returns:
                    continue
                want = _canon_w(ast.parse(expand_accessors(ast.parse(f"cls.{acc}()", mode="eval").body, returns), mode="eval").body, None)
                defs = [(f, _selected_under(f, tf, env)) for a, f, _b in members if a == acc and isinstance(f, FuncNode)]
                live = [f for f, sel in defs if sel is not False]
                if not live:
                    continue
                for f in live:
                    nf = clone(normalize(repo, tm, f, copyprop="all"))
                    _attach_parents(nf)
                    rets, falls = possible_returns(list(nf.body), env, nf)
                    got = sorted({_canon_w(_inline_closure_calls(repo, rel, r, f), wparam) for r in rets} | ({"None"} if falls else set()))
                    wrong = [g for g in got if g != want]
                    R.check(not wrong, r_ad, rel, f"{tname}.{acc} [{kind}]", f"{f.name} returns {' / '.join(got)}",
                            f"`{mod.rel}:{qualname_of(encl)}` declares the node class over the raw {kind} class (`{bname}.{acc}()` answers `{want}`, W the wrapped class) and runs the adapter that `{tm.rel}:{qualname_of(tf)}` builds from it, whose `{acc}` ({f.name}, line {f.lineno}) can answer `{wrong[0] if wrong else ''}` for a {kind}: "
                            + (f"a {kind} class is free to declare that attribute (the catalogue at most warns), and then " if any(isinstance(x, ast.Call) and isinstance(x.func, ast.Name) and x.func.id == "hasattr" for x in ast.walk(nf)) else "")
                            + "the generated node class declares one type and the processor it runs another - the declared input/output types of the node wrapper do not mirror the processor it wraps (sources take no data, sinks pass their input type through)",
                            f.lineno)


# --------------------------------------------------------------------------- round 8: what the catalogue demands of a class vs what the templates define
_PLAIN_BASES = {"object", "ABC", "abc.ABC", "Generic", "typing.Generic", "Protocol", "typing.Protocol"}


def exact_class_facts(repo: Repo, bases: List[str], attrs: Dict[str, Tuple[ast.AST, bool]]) -> Tuple[Dict[str, Optional[str]], bool]:
    """({attribute: 'classmethod' / 'other' / None}, closed) for the classes generated from a template with the base names
    *bases* and the namespace *attrs*: the template's own bindings first, then the classes along the MRO of its bases
    (definitions that disagree about the binding give None).  closed = every base along the MRO is a class of the
    package or one of the plain library bases that add no ordinary attribute."""
    members: Dict[str, Optional[str]] = {a: ("classmethod" if is_cm else "other") for a, (_n, is_cm) in attrs.items()}
    closed = True
    inherited: Dict[str, Set[str]] = {}
    for b in bases:
        hit = _class_by_name(repo, b.split(".")[-1])
        if hit is None:
            closed = False
            continue
        for m, c in repo.mro(*hit):
            for be in c.bases:
                inner = be.value if isinstance(be, ast.Subscript) else be
                r = repo.resolve_name(m, inner, c)
                if not (r is not None and isinstance(r[1], ast.ClassDef)) and (dotted_name(inner) or "?") not in _PLAIN_BASES:
                    closed = False
            for st in c.body:
                if isinstance(st, FuncNode):
                    inherited.setdefault(st.name, set()).add("classmethod" if any(dotted_name(d) == "classmethod" for d in st.decorator_list) else "other")
                elif isinstance(st, (ast.Assign, ast.AnnAssign)) and getattr(st, "value", None) is not None:
                    for t in (st.targets if isinstance(st, ast.Assign) else [st.target]):
                        for x in ast.walk(t):
                            if isinstance(x, ast.Name):
                                inherited.setdefault(x.id, set()).add("classmethod" if is_classmethod_value(st.value, c) else "other")
                elif not isinstance(st, (ast.Expr, ast.Pass, ast.AnnAssign)):
                    for x in ast.walk(st):  # conditional definitions, imports, nested classes: bound somehow
                        if isinstance(x, (ast.FunctionDef, ast.AsyncFunctionDef, ast.ClassDef)):
                            inherited.setdefault(x.name, set()).add("?")
                        elif isinstance(x, ast.Name) and isinstance(x.ctx, ast.Store):
                            inherited.setdefault(x.id, set()).add("?")
                        elif isinstance(x, ast.alias):
                            inherited.setdefault((x.asname or x.name).split(".")[0], set()).add("?")
    for k, v in inherited.items():
        if k not in members:
            members[k] = next(iter(v)) if len(v) == 1 and "?" not in v else None
    return members, closed


def metaclass_names(repo: Repo) -> Set[str]:
    """Names that the metaclasses of the package define (a lookup on a class finds them too)."""
    out: Set[str] = set()
    for m, _q, c in repo.all_classes():
        if m.rel.startswith(("semantiva/examples/", "tests/")):
            continue
        if any((dotted_name(b) or "").split(".")[-1] in ("type", "ABCMeta", "EnumMeta") for b in c.bases):
            for x in ast.walk(c):
                if isinstance(x, (ast.FunctionDef, ast.AsyncFunctionDef)):
                    out.add(x.name)
                elif isinstance(x, ast.Name) and isinstance(x.ctx, ast.Store):
                    out.add(x.id)
    return out


def template_component_types(repo: Repo, rel: str, attrs, bases: List[str], site: ast.AST) -> List[Tuple[Optional[str], str]]:
    """(wrapped kind or None, component_type) for every component_type the classes generated from a template can declare:
    the literal its own `_define_metadata` writes, the one of each wrapped kind (the factory's `issubclass` tests on its
    arguments) when the template keeps the wrapped class's entry, else the one its bases declare.  Empty = not decided."""
    factory = enclosing_function(site)
    own = next((t for t in (declared_component_type(repo, b.split(".")[-1]) for b in bases) if t), None)
    if factory is not None:
        fparams = set(_params(factory))
        entries: List[ast.AST] = []
        preserved = False
        for a, f, _b in member_functions(repo, rel, attrs, site):
            if a != "_define_metadata" or not isinstance(f, FuncNode):
                continue
            for v, _st in metadata_entries(f, "component_type"):
                entries.append(v)
                for x in _flow_in(f, v):
                    if isinstance(x, ast.Call) and isinstance(x.func, ast.Attribute) and x.func.attr in ("get_metadata", "_define_metadata") and (dotted_name(x.func.value) or "").split(".")[0] in fparams:
                        preserved = True
        if preserved:
            kinds = sorted({dotted_name(x) or "?" for c in ast.walk(factory) if isinstance(c, ast.Call) and call_name(c) == "issubclass" and len(c.args) == 2 and (dotted_name(c.args[0]) or "") in fparams
                            for x in (c.args[1].elts if isinstance(c.args[1], ast.Tuple) else [c.args[1]])})
            out = [(k, declared_component_type(repo, k.split(".")[-1])) for k in kinds]
            return [(k, t) for k, t in out if t] if all(t for _k, t in out) else []
        if entries:
            if all(isinstance(v, ast.Constant) and isinstance(v.value, str) for v in entries):
                return [(None, v.value) for v in entries]  # type: ignore[attr-defined]
            return []
    return [(None, own)] if own else []


def _inline_catalogue_helpers(repo: Repo, mod, e: ast.AST, _depth: int = 0) -> ast.AST:
    """*e* with calls of plain module-level helpers of *mod* whose body is `x = ..` (single-assignment locals) followed
    by one `return <expr>` replaced by that expression over the arguments."""
    if _depth > 4:
        return e

    class _T(ast.NodeTransformer):
        def visit_Call(self, node: ast.Call):
            self.generic_visit(node)
            h = mod.defs.get(node.func.id) if isinstance(node.func, ast.Name) else None
            if not isinstance(h, FuncNode) or h.decorator_list or node.keywords or any(isinstance(a, ast.Starred) for a in node.args):
                return node
            a = h.args
            if a.vararg or a.kwarg or a.kwonlyargs or len(a.posonlyargs) + len(a.args) != len(node.args):
                return node
            body = [st for st in h.body if not (isinstance(st, ast.Expr) and isinstance(st.value, ast.Constant))]
            if not body or not isinstance(body[-1], ast.Return) or body[-1].value is None:
                return node
            table: Dict[str, ast.AST] = {p.arg: v for p, v in zip(list(a.posonlyargs) + list(a.args), node.args)}
            for st in body[:-1]:
                if not (isinstance(st, ast.Assign) and len(st.targets) == 1 and isinstance(st.targets[0], ast.Name)) or st.targets[0].id in table:
                    return node
                table[st.targets[0].id] = _Subst(table).visit(ast.Expression(body=clone(st.value))).body
            res = _Subst(table).visit(ast.Expression(body=clone(body[-1].value))).body
            return _inline_catalogue_helpers(repo, mod, res, _depth + 1)

    return _T().visit(ast.Expression(body=clone(e))).body


def diagnostic_fires(repo: Repo, mod, fn: ast.AST, d: ast.AST, env: Dict[str, object]) -> Tuple[Optional[bool], List[str], Optional[ast.AST]]:
    """Does the catalogue check *fn* (normal form) evaluate the diagnostic call *d* for a class with the abstract facts
    *env*?  (True / False / None = not decided, the tests evaluated, the last test that let it through)."""
    seen: List[str] = []
    last: List[Optional[ast.AST]] = [None]

    def holds(n: ast.AST) -> bool:
        return any(x is d for x in ast.walk(n))

    def decide(test: ast.AST) -> Optional[bool]:
        try:
            val: Optional[bool] = bool(abs_eval(_inline_catalogue_helpers(repo, mod, test), env, fn))
        except (_Unknown, TypeError, ValueError, KeyError, AttributeError) as u:
            seen.append(f"`{norm(test, 110)}` (undecided: {u})")
            return None
        seen.append(f"`{norm(test, 110)}` is {val}")
        return val

    def leaves(stmts: List[ast.stmt]) -> bool:
        return any(isinstance(x, (ast.Return, ast.Raise)) for st in stmts for x in walk_no_nested(st))

    def block(stmts: List[ast.stmt]) -> Optional[bool]:
        undecided = False
        for st in stmts:
            if not holds(st):
                if isinstance(st, ast.If) and leaves([st]):
                    val = decide(st.test)
                    taken = (st.body if val else st.orelse) if val is not None else None
                    if taken is None:
                        undecided = True
                    elif taken and isinstance(taken[-1], (ast.Return, ast.Raise)):
                        return False
                    elif leaves(taken):
                        undecided = True
                elif leaves([st]):
                    undecided = True
                continue
            res: Optional[bool]
            if isinstance(st, ast.If):
                if holds(st.test):
                    return None
                val = decide(st.test)
                if val is None:
                    return None
                inner = st.body if val else st.orelse
                if not any(holds(x) for x in inner):
                    return False
                last[0] = st.test
                res = block(inner)
            elif isinstance(st, ast.Try):
                res = block(st.body) if any(holds(x) for x in st.body) else None
            elif isinstance(st, (ast.With, ast.AsyncWith)):
                res = block(st.body) if any(holds(x) for x in st.body) else None
            elif isinstance(st, (ast.Expr, ast.Return, ast.Assign, ast.AnnAssign, ast.AugAssign)):
                res = True
                child: ast.AST = d
                for a in ancestors(d):
                    if a is st:
                        break
                    if isinstance(a, ast.IfExp):
                        if child is a.test:
                            return None
                        val = decide(a.test)
                        if val is None:
                            return None
                        if (child is a.body) != val:
                            return False
                        last[0] = a.test
                    elif isinstance(a, (ast.BoolOp, ast.ListComp, ast.SetComp, ast.DictComp, ast.GeneratorExp, ast.Lambda, ast.comprehension)):
                        return None
                    child = a
            else:
                return None
            return None if (res and undecided) else res
        return False

    return block(list(fn.body)), seen, last[0]  # type: ignore[attr-defined]


_SOURCE_PARSERS = ("ast.parse", "ast.literal_eval")
_CATCH_ALL = ("Exception", "BaseException")


def source_parser_call(mod, c: ast.Call) -> Optional[str]:
    """'ast.parse' / 'ast.literal_eval' when *c* calls that partial function of the standard library (whatever the
    import spelling), else None."""
    nm = call_name(c)
    if not nm:
        return None
    head, _, rest = nm.partition(".")
    target = mod.imports.get(head)
    full = (f"{target}.{rest}" if rest else target) if target else nm
    return full if full in _SOURCE_PARSERS else None


def _caught_all(node: ast.AST, fn: ast.AST) -> bool:
    """A handler (or `contextlib.suppress`) of *fn* around *node* catches every Exception."""
    child: ast.AST = node
    for a in ancestors(node):
        if isinstance(a, ast.Try) and any(x is child for x in a.body):
            for h in a.handlers:
                kinds = [dotted_name(x) or "?" for x in (h.type.elts if isinstance(h.type, ast.Tuple) else [h.type])] if h.type is not None else ["BaseException"]
                if any(k.split(".")[-1] in _CATCH_ALL for k in kinds) and not any(isinstance(x, ast.Raise) for st in h.body for x in walk_no_nested(st)):
                    return True
        if isinstance(a, (ast.With, ast.AsyncWith)) and any(x is child for x in a.body):
            for it in a.items:
                ce = it.context_expr
                if isinstance(ce, ast.Call) and (call_name(ce) or "").split(".")[-1] == "suppress" and any((dotted_name(x) or "").split(".")[-1] in _CATCH_ALL for x in ce.args):
                    return True
        if a is fn:
            break
        child = a
    return False


def _typed_method_targets(repo: Repo, mod, fn: ast.AST, call: ast.Call) -> List[Tuple[object, ast.AST]]:
    """Methods that `<local>.m(..)` denotes when the local is a parameter annotated with a class of the package or holds
    an instance constructed in *fn* (`x = given or K()`)."""
    f = call.func
    if not (isinstance(f, ast.Attribute) and isinstance(f.value, ast.Name)) or f.value.id in ("self", "cls"):
        return []
    cands: List[str] = []
    a = fn.args  # type: ignore[attr-defined]
    for p in list(getattr(a, "posonlyargs", [])) + list(a.args) + list(a.kwonlyargs):
        if p.arg == f.value.id and p.annotation is not None:
            for x in ast.walk(p.annotation):
                if isinstance(x, ast.Name):
                    cands.append(x.id)
                elif isinstance(x, ast.Attribute):
                    cands.append(x.attr)
                elif isinstance(x, ast.Constant) and isinstance(x.value, str):
                    cands.extend(_re.findall(r"[A-Za-z_][A-Za-z_0-9]*", x.value))
    for x in value_flow(fn, f.value):
        if isinstance(x, ast.Call) and (call_name(x) or ""):
            cands.append((call_name(x) or "").split(".")[-1])
    out: List[Tuple[object, ast.AST]] = []
    for nm in cands:
        hit = _class_by_name(repo, nm)
        if hit is None:
            continue
        m = repo.method(hit[0], hit[1], f.attr)
        if m is not None and all(m[1] is not o[1] for o in out):
            out.append(m)
    return out


def source_parser_sites(repo: Repo, mod, fn: ast.AST, _memo: Optional[Dict[int, list]] = None, _stack: Optional[Set[int]] = None, _depth: int = 0) -> List[Tuple[List[Tuple[object, ast.AST, ast.Call]], object, ast.AST, ast.Call, str]]:
    """(calls on the way [(module, function, call)], module, function, parser call, parser) for every `ast.parse` /
    `ast.literal_eval` in the call closure of *fn* whose exception no catch-all handler on the way up to *fn* stops."""
    _memo = _memo if _memo is not None else {}
    _stack = _stack if _stack is not None else set()
    if id(fn) in _memo:
        return _memo[id(fn)]
    if id(fn) in _stack or _depth > 7:
        return []
    _stack.add(id(fn))
    out = []
    for c in calls_in(fn):
        which = source_parser_call(mod, c)
        if which and c.args and not _caught_all(c, fn):
            out.append(([], mod, fn, c, which))
            continue
        try:
            targets = list(repo.resolve_call(mod, c))
        except Exception:  # pragma: no cover - resolution is best effort
            targets = []
        if not targets:
            targets = _typed_method_targets(repo, mod, fn, c)
        for tm, tn in targets:
            if not isinstance(tn, FuncNode) or tn is fn:
                continue
            sub = source_parser_sites(repo, tm, tn, _memo, _stack, _depth + 1)
            if sub and not _caught_all(c, fn):
                for chain, m2, f2, c2, w2 in sub:
                    if all(c2 is not o[3] for o in out):
                        out.append(([(mod, fn, c)] + chain, m2, f2, c2, w2))
    _stack.discard(id(fn))
    _memo[id(fn)] = out
    return out


def parsed_text_form(repo: Repo, mod, fn: ast.AST, call: ast.Call) -> str:
    """The parser call with its text argument written over the parameters of *fn* (`_P_`), locals looked through and
    keywords sorted: two sites with the same form parse the same string the same way."""
    ps = set(_params(fn))
    arg = _resolve_expr(fn, call.args[0], {})

    class _P(ast.NodeTransformer):
        def visit_Name(self, node: ast.Name):
            return ast.copy_location(ast.Name(id="_P_", ctx=ast.Load()), node) if node.id in ps else node

    text = ast.unparse(_P().visit(ast.Expression(body=clone(arg))).body)
    rest = [ast.unparse(_resolve_expr(fn, a, {})) for a in call.args[1:]] + sorted(f"{k.arg}={ast.unparse(_resolve_expr(fn, k.value, {}))}" for k in call.keywords if k.arg)
    return f"{source_parser_call(mod, call)}({', '.join([text] + rest)})"


def _round8(repo: Repo, R: Report, tmpl) -> None:
    exp_mod = repo.module(EXP)
    # ------------------------------------------------------------------ the catalogue demands nothing a template does not define
    r_dem = R.rule("C16-D1-catalogue-demands-met-by-templates", "no error-level diagnostic of a catalogue check is reached for the classes a template generates, as far as the check's own tests decide it on what is known of those classes: the component_type they declare (their own, or the wrapped kind's where the template keeps it), the names along their MRO, and which attributes the template and its bases bind and how (classmethod or not; an attribute nobody binds is absent, so `hasattr` is false and a static lookup finds nothing) - a check that demands an attribute of every class of a component kind has to agree with the templates that declare that kind without defining it (the role-preserving IO adapters expose `_process_logic` only)", 20)
    builders = diagnostic_builders(repo)
    checks = catalogue_checks(repo)
    if len(checks) < 10:
        raise AnalysisError(f"contract catalogue: {len(checks)} check functions registered through RuleSpec(...) found (30+ confirmed by reading)")
    meta = metaclass_names(repo)
    facts = []
    for rel, tname, attrs, bases, site in tmpl:
        kinds = template_component_types(repo, rel, attrs, bases, site)
        if not kinds:
            continue
        members, closed = exact_class_facts(repo, bases, attrs)
        facts.append((rel, tname, _AbsExact(["<generated>"] + mro_names(repo, bases), members, closed, meta), kinds, site))
    if len(facts) < 6:
        raise AnalysisError(f"{len(facts)} class templates with a decided component_type found (10 confirmed by reading)")
    for qn in checks:
        nf = clone(normalize(repo, exp_mod, exp_mod.defs[qn], copyprop="all", keep=tuple(builders)))
        _attach_parents(nf)
        nps = _explicit_params(nf)
        if not nps:
            continue
        for d in error_diagnostics(nf, builders):
            for rel, tname, absc, kinds, site in facts:
                for kind, ctype in kinds:
                    env: Dict[str, object] = {nps[0]: absc}
                    if len(nps) > 1:
                        env[nps[1]] = {"component_type": ctype}
                    verdict, seen, test = diagnostic_fires(repo, exp_mod, nf, d, env)
                    if verdict is None:
                        continue
                    repo.consulted.add(rel)
                    label = f"{tname} [{kind}]" if kind else tname
                    R.check(verdict is False, r_dem, EXP, qn, f"{norm(test if test is not None else d, 100)} for {label}",
                            f"`{EXP}:{qn}` reports `{norm(d, 60)}` (error) for every class generated by `{rel}:{label}` (component_type `{ctype}`; line {getattr(site, 'lineno', 0)}): "
                            + "; ".join(seen) + f" - decided on what the template and its bases ({', '.join(absc.names[1:4])}, ..) bind: an attribute none of them defines is absent from the generated class, `hasattr` is false and a static lookup finds nothing. The generated processor class of every such node configuration fails the published contract catalogue; the check and the templates have to agree on which attributes a class that declares this component kind carries",
                            getattr(test, "lineno", 0) or getattr(d, "lineno", 0) or getattr(exp_mod.defs[qn], "lineno", 0))

    # ------------------------------------------------------------------ metadata parses a configured text the way the factory validated it
    r_par = R.rule("C16-D1-metadata-parses-what-the-factory-validated", "where the `_define_metadata` of a generated class parses (`ast.parse`, no catch-all handler on the way) a text that the factory stored on the class from one of its arguments, the factory's own construction-time path parses the text of that argument too, and some such site parses it in the same form (same function of the received text, same mode): the construction-time parse is what rejects a configuration whose expressions do not parse, so if it parses a cleaned-up text (`str(x).strip()`) while the class keeps and later parses the raw one, configurations are accepted whose generated class raises in `_define_metadata` / `get_metadata()` - SVA100 (error), the metaclass does not register the class (SVA107), and an adapter built over it fails the same way", 3)
    memo: Dict[int, list] = {}
    for rel, tname, attrs, bases, site in tmpl:
        factory = enclosing_function(site)
        if factory is None:
            continue
        tm = repo.module(rel)
        fparams = [p for p in _params(factory) if p not in ("self", "cls")]
        inside = lambda n: any(a is factory for a in ancestors(n))  # noqa: E731
        gates: Optional[list] = None
        for attr, f, _b in member_functions(repo, rel, attrs, site):
            if attr != "_define_metadata" or not isinstance(f, FuncNode):
                continue
            for chain, m2, f2, c2, which in source_parser_sites(repo, tm, f, memo):
                # the call that hands the text over from the code inside the factory
                steps = chain + [(m2, f2, c2)]
                bnd = [st for st in steps if inside(st[1]) or st[1] is f]
                if not bnd:
                    continue
                _bm, bfn, bcall = bnd[-1]
                stored: Set[str] = set()
                for a in list(bcall.args) + [k.value for k in bcall.keywords]:
                    for x in value_flow(bfn, a):
                        if isinstance(x, ast.Constant) and isinstance(x.value, str) and x.value in attrs:
                            stored.add(x.value)
                        elif isinstance(x, ast.Attribute) and x.attr in attrs:
                            stored.add(x.attr)
                origin: Set[str] = set()
                for x_attr in sorted(stored):
                    node = attrs[x_attr][0]
                    v = node.value if isinstance(node, (ast.Assign, ast.AnnAssign)) else node
                    if v is None or isinstance(v, FuncNode):
                        continue
                    origin |= {y.id for y in _flow_in(factory, v) if isinstance(y, ast.Name) and y.id in fparams}
                if not origin:
                    continue
                if gates is None:
                    gates = []
                    for c in calls_in(factory):
                        try:
                            targets = list(repo.resolve_call(tm, c)) or _typed_method_targets(repo, tm, factory, c)
                        except Exception:  # pragma: no cover
                            targets = []
                        reads = {y.id for a in list(c.args) + [k.value for k in c.keywords] for y in _flow_in(factory, a) if isinstance(y, ast.Name) and y.id in fparams}
                        for gm, gn in targets:
                            if isinstance(gn, FuncNode) and not inside(gn):
                                for _ch, m3, f3, c3, w3 in source_parser_sites(repo, gm, gn, memo):
                                    gates.append((reads, m3, f3, c3, w3, c))
                want = parsed_text_form(repo, m2, f2, c2)
                mine = [g for g in gates if g[0] & origin and g[4] == which]
                if not mine:
                    raise AnalysisError(f"{rel}:{tname}._define_metadata parses the text stored in `{'/'.join(sorted(stored))}` (from `{'/'.join(sorted(origin))}`) at {m2.rel}:{qualname_of(f2)} (`{norm(c2, 60)}`), but no `{which}` of that argument was found on the construction-time path of `{qualname_of(factory)}`: whether invalid texts are rejected before the class exists is not decided")
                repo.consulted.add(m2.rel)
                forms = {}
                for _r, m3, f3, c3, _w, _c in mine:
                    repo.consulted.add(m3.rel)
                    forms[parsed_text_form(repo, m3, f3, c3)] = (m3, f3, c3)
                ok = want in forms
                gm3, gf3, gc3 = next(iter(forms.values()))
                R.check(ok, r_par, gm3.rel if not ok else m2.rel, qualname_of(gf3) if not ok else qualname_of(f2), norm(stmt_of(gc3) if not ok else stmt_of(c2), 110) + f" [{tname}]",
                        f"`{qualname_of(factory)}` validates the argument `{'/'.join(sorted(origin))}` at construction time with `{next(iter(forms))}` (`{gm3.rel}:{qualname_of(gf3)}`, _P_ = the text it receives), while the class it generates ({tname}) keeps the raw value in `{'/'.join(sorted(stored))}` and its `_define_metadata` parses it with `{want}` (`{m2.rel}:{qualname_of(f2)}`, reached through {' -> '.join(qualname_of(st[1]) for st in steps)}) without a handler: the two sides of this module boundary do not parse the same string, so a text that only the construction-time form accepts (leading blanks, a non-string scalar from YAML) is accepted, the node is built, and `_define_metadata()` / `get_metadata()` of the generated sweep class raise - SVA100 (error), the class is never registered, and the IO adapter generated around a swept source fails the same way",
                        getattr(gc3, "lineno", 0) if not ok else getattr(c2, "lineno", 0))
