"""C13 - trace aggregation is order-independent and right for every partial trace.

Anchors are found by role from the public entry point ``TraceAggregator.ingest``: the functions that receive the record
   (methods, module-level functions taking the aggregator or the container they mutate, values of a lookup table,
   closures) are read off the dispatcher's normal form (match lowered, private sub-dispatchers inlined); per record type
   the tests on ``record["record_type"]`` are evaluated on the CFG, which gives type -> handler and the coverage rule.
   Each handler is analysed *as called* (``instantiate``: parameters replaced by the call's arguments, so ``runs`` is
   ``self._runs``) and classified by the record types dispatched to it, never by its name.
D1 every store of the ingest functions (normal form, helpers inlined) is a commutative merge (classified); aggregates
   are created from their key only; an aggregate that receives a merge is stored in the aggregator (CFG: no path
   construction -> merge -> return without a registration); a container entry is stored only when the lookup found
   nothing and is never removed (CFG: every path to `c[k] = agg` passes an edge guaranteeing absence); the unconditional
   merges (dispatch, flag, set add, counter) are not skipped by a test that reads state left by earlier records, and
   nothing on the aggregation path reads process-lifetime cells,
D2 verdict fields are order-free functions of merged state; finalisation writes to aggregator state - directly or
   through an aliasing local - only idempotent min/max fall-backs; a None-until-ingested field is never ordered
   without a None guard (finalisation is total on every subset of records),
D2+ no call evaluated while finalising reaches a store into aggregator state other than such a fall-back: methods of the
   aggregate classes (found by name among the classes of the aggregation package - a get-or-create accessor used for a
   read inserts an entry), methods of the aggregator, package functions that receive state; the callee is followed
   into its module with the parameters bound to state as roots.  On the ingest side the same accessors are inlined
   into the handler's normal form, so their stores are classified / CFG-checked like the handler's own,
D3 verdict decision trees (if statements / conditional expressions, roles found by pattern, tests outside the table
   treated as free booleans), roll-up counter zeroed per call, set-difference directions; the verdict classes are plain
   records and no finaliser rewrites a built verdict (the table is decided on the constructor arguments).
D4 interface with the producer (what the consumer's rules take for granted about a trace the runtime wrote): the
   launch-key fields the aggregator reads have the same origin in the run_space_end record as in the run_space_start
   record of the launch (record builders found by their constant record_type, the value followed up through every
   function that only hands it down - an omitted argument counts as the parameter's default - to the function that
   emits both edges, compared there by reaching definitions on paths through the start call); a class that writes
   trace records never has two open handles on the configured path itself (line order of a file = emission order,
   the reason why only the rows with the start record seen are constrained in D3); every value written into a record
   field the aggregator orders as a string (fields found from the ordering comparisons of the ingest functions and
   finalize_run, producers followed from the record builders through locals / parameters / helper results) is a
   fixed-width rendering of the clock, the same number of fraction digits everywhere (text order = time order).
   Round 8: every record type whose merge registers a launch aggregate under the launch key (the two edges and
   pipeline_start - found from the fields read into the registration keys) gets the key written as received: a
   function on the hand-down chain that writes / passes on `f(p)` for the one parameter `p` it received (decided with
   reaching definitions, `p = f(p)` included) must be matched by the same `f` on the chain of every other joined type;
   such a step no longer ends the hand-down chain of the edge agreement rule.
D3+ the launch roll-up: the counting loop over the launch's runs is passed on every CFG path to the construction of
   the verdict of a known launch, and the counter it fills is what the verdict's summary carries.
"""
from __future__ import annotations

import ast
import itertools
from typing import Dict, List, Optional, Set, Tuple

from ..engine import (
    AnalysisError,
    FuncNode,
    Repo,
    ancestors,
    assigned_value,
    call_attr,
    call_name,
    calls_in,
    dotted_name,
    kwarg,
    norm,
    parent,
    returned_values,
    stmt_of,
    walk_no_nested,
)
from ..report import Report

AGG = "semantiva/trace/aggregation/aggregator.py"
CLS = "TraceAggregator"
SER_LAST_WRITER = {"last_seq", "last_status", "timing", "last_error"}


def _guards(node: ast.AST, stop: ast.AST) -> List[Tuple[ast.AST, bool]]:
    """(test, polarity) of the if-statements enclosing *node* up to *stop*."""
    out = []
    child = node
    for a in ancestors(node):
        if a is stop:
            break
        if isinstance(a, ast.If):
            in_body = any(child is s or any(child is x for x in ast.walk(s)) for s in a.body)
            out.append((a.test, in_body))
        child = a
    return out


def _is_record_read(e: ast.AST, rec: str) -> bool:
    """record.get("k") / (record.get("a") or {}).get("b") / record["k"] chains."""
    for n in ast.walk(e):
        if isinstance(n, ast.Name) and n.id == rec:
            return True
    return False


def bad_ctor_args(c: ast.Call, rec: str, key_vars: Set[str]) -> str:
    """Non-empty explanation when an aggregate constructor receives anything but the key it is stored under."""
    args = list(c.args) + [k.value for k in c.keywords]
    argnames = {x.id for a in args for x in ast.walk(a) if isinstance(x, ast.Name)}
    extra = argnames - key_vars
    reads_record = any(_is_record_read(a, rec) for a in args)
    if extra or reads_record:
        return f"the aggregate is constructed from record fields other than its key ({sorted(extra) or 'record'}): they are kept only if this record happens to be the first one seen for the key"
    return ""


class registration_keys:
    """Role of a local as *key*: the names that make up the subscript under which an aggregate object is stored into a
    container of the aggregator (``self._runs[run_id] = run``, ``c.setdefault(key, LaunchAggregate(..))``; a key that
    is a local bound to a tuple brings the tuple's components along).  Calling the object with a constructor call
    gives the key names of the store(s) that constructor's result goes to (all keys when no store is found - the
    missing registration is reported by C13-D1-registered-aggregates)."""

    def __init__(self, fn: ast.AST, state: Set[str], model_classes: Set[str]) -> None:
        def is_ctor(e: ast.AST) -> bool:
            return isinstance(e, ast.Call) and isinstance(e.func, ast.Name) and (e.func.id in model_classes or e.func.id[:1].isupper())

        self.fresh: Set[str] = set()
        ctors_of_local: Dict[str, List[ast.Call]] = {}
        for n in walk_no_nested(fn):
            if isinstance(n, (ast.Assign, ast.AnnAssign)) and n.value is not None:
                tg = n.targets[0] if isinstance(n, ast.Assign) else n.target
                cs = [l for l in _leaves(n.value) if is_ctor(l)]
                # `x = c.setdefault(k, Ctor(..))` binds the constructed object as well
                cs += [a for l in _leaves(n.value) if isinstance(l, ast.Call) and call_attr(l) == "setdefault" and len(l.args) == 2 for a in _leaves(l.args[1]) if is_ctor(a)]
                if isinstance(tg, ast.Name) and cs:
                    self.fresh.add(tg.id)
                    ctors_of_local.setdefault(tg.id, []).extend(cs)
        self.by_ctor: Dict[int, Set[str]] = {}
        self.all: Set[str] = set()
        self.key_exprs: List[ast.AST] = []

        def key_names(k: ast.AST) -> Set[str]:
            names = {x.id for x in ast.walk(k) if isinstance(x, ast.Name)}
            for _ in range(3):
                for nm in list(names):
                    for v in assigned_value(fn, nm):
                        if isinstance(v, ast.Tuple):
                            names |= {x.id for x in ast.walk(v) if isinstance(x, ast.Name)}
            return names

        regs: List[Tuple[ast.AST, ast.AST]] = []  # (key, stored value)
        for n in walk_no_nested(fn):
            if isinstance(n, (ast.Assign, ast.AnnAssign)) and n.value is not None:
                for t in (n.targets if isinstance(n, ast.Assign) else [n.target]):
                    if isinstance(t, ast.Subscript) and _root_name(t) in state | self.fresh:
                        regs.append((t.slice, n.value))
            if isinstance(n, ast.Call) and isinstance(n.func, ast.Attribute) and n.func.attr in ("setdefault", "__setitem__") and len(n.args) == 2 and _root_name(n.func) in state | self.fresh:
                regs.append((n.args[0], n.args[1]))
        for k, v in regs:
            cs: List[ast.Call] = []
            for l in _leaves(v):
                if is_ctor(l):
                    cs.append(l)
                elif isinstance(l, ast.Name):
                    cs += ctors_of_local.get(l.id, [])
            if not cs:
                continue  # a counter / scalar entry, not an aggregate
            names = key_names(k)
            self.all |= names
            self.key_exprs.append(k)
            for c in cs:
                self.by_ctor.setdefault(id(c), set()).update(names)

    def __call__(self, ctor: ast.AST) -> Set[str]:
        return self.by_ctor.get(id(ctor), self.all)


def _aggregate_containers(cls: ast.ClassDef) -> Dict[str, Set[str]]:
    """Role of an attribute of the aggregator as *container of aggregates*: constructor name -> the attributes ``A`` with
    a store ``self.A[key] = Ctor(..)`` / ``self.A.setdefault(key, Ctor(..))`` (the object may sit in a local) in a method."""
    out: Dict[str, Set[str]] = {}
    for m in [x for x in cls.body if isinstance(x, FuncNode) and x.args.args]:
        me = m.args.args[0].arg

        def ctors(v: ast.AST, _m=m) -> List[str]:
            found: List[str] = []
            for l in _leaves(v):
                if isinstance(l, ast.Call) and isinstance(l.func, ast.Name) and l.func.id[:1].isupper():
                    found.append(l.func.id)
                elif isinstance(l, ast.Name):
                    for v2 in assigned_value(_m, l.id):
                        found += [l2.func.id for l2 in _leaves(v2) if isinstance(l2, ast.Call) and isinstance(l2.func, ast.Name) and l2.func.id[:1].isupper()]
            return found

        for n in walk_no_nested(m):
            if isinstance(n, ast.Assign):
                for t in n.targets:
                    if isinstance(t, ast.Subscript) and isinstance(t.value, ast.Attribute) and isinstance(t.value.value, ast.Name) and t.value.value.id == me:
                        for c in ctors(n.value):
                            out.setdefault(c, set()).add(t.value.attr)
            elif isinstance(n, ast.Call) and call_attr(n) == "setdefault" and len(n.args) == 2 and isinstance(n.func, ast.Attribute) and isinstance(n.func.value, ast.Attribute) and isinstance(n.func.value.value, ast.Name) and n.func.value.value.id == me:
                for c in ctors(n.args[1]):
                    out.setdefault(c, set()).add(n.func.value.attr)
    return out


def _container_lookup(fn: ast.AST, containers: Dict[str, Set[str]], kind: str, var: str = "_RUN_"):
    """The statement of *fn* that binds a local to the entry of a container of aggregates whose constructor name starts
    with *kind* (``x = self.A.get(k)`` / ``x = self.A[k]``), as a pat match binding *var*; None when there is none."""
    from .. import pat
    attrs = {a for c, s_ in containers.items() if c.startswith(kind) for a in s_}
    if not attrs or not fn.args.args:
        return None
    me = fn.args.args[0].arg
    for form in (f"{var} = _C_.get(_K_)", f"{var} = _C_[_K_]"):
        for node, env in pat.find(fn, form):
            c = env.get("_C_")
            if isinstance(c, ast.Attribute) and isinstance(c.value, ast.Name) and c.value.id == me and c.attr in attrs and pat.name_of(env, var):
                return node, env
    return None


def is_old_entry(fn: ast.AST, e: ast.AST, target: ast.Subscript, depth: int = 0) -> bool:
    """*e* is the value the container held under the target's key (0 when absent): ``c.get(k, 0)``, ``c.get(k) or 0``,
    ``c[k]``, or a local whose only binding is one of these."""
    cont, key = _d(target.value), _d(target.slice)
    if isinstance(e, ast.Call) and call_attr(e) == "get" and isinstance(e.func, ast.Attribute) and 1 <= len(e.args) <= 2 and _d(e.func.value) == cont and _d(e.args[0]) == key:
        return len(e.args) == 1 or (isinstance(e.args[1], ast.Constant) and e.args[1].value == 0)
    if isinstance(e, ast.BoolOp) and isinstance(e.op, ast.Or) and len(e.values) == 2 and isinstance(e.values[1], ast.Constant) and e.values[1].value == 0:
        return is_old_entry(fn, e.values[0], target, depth + 1)
    if isinstance(e, ast.Subscript) and _d(e.value) == cont and _d(e.slice) == key:
        return True
    if isinstance(e, ast.Name) and depth < 3:
        vals = assigned_value(fn, e.id)
        stores = [x for x in walk_no_nested(fn) if isinstance(x, ast.Name) and x.id == e.id and isinstance(x.ctx, ast.Store)]
        return len(vals) == 1 and len(stores) == 1 and is_old_entry(fn, vals[0], target, depth + 1)
    return False


def classify_store(fn: ast.FunctionDef, st: ast.AST, target: ast.AST, rec: str, keys_of, derived: Dict[str, ast.AST], types: Optional[Set[str]] = None) -> Tuple[str, str]:
    """Return (class, detail) for a store into an aggregate.  *types*: the record types the function is dispatched
    for (role, not name): a SER handler's last-writer fields commute under the producer invariant, a lifecycle record
    is unique per key."""
    is_ser = bool(types) and types == {"ser"}
    is_unique = bool(types) and types <= LIFECYCLE
    guards = _guards(st, fn)
    value = getattr(st, "value", None)
    tname = dotted_name(target) if not isinstance(target, ast.Subscript) else (dotted_name(target.value) or "") + "[...]"
    # create-if-absent: container[key] = fresh aggregate.  Whether the store is reached only when the key is absent is
    # decided on the CFG by C13-D1-entries-created-never-replaced (check_entries_kept); here: built from the key only
    if isinstance(target, ast.Subscript) and isinstance(value, (ast.Name, ast.Call)):
        ctor_defs: List[ast.AST] = []
        if isinstance(value, ast.Name):
            for v in assigned_value(fn, value.id):
                ctor_defs += [l for l in _leaves(v) if isinstance(l, ast.Call) and isinstance(l.func, ast.Name) and l.func.id[:1].isupper()]
        elif isinstance(value.func, ast.Name) and value.func.id[:1].isupper():
            ctor_defs = [value]
        if ctor_defs:
            for c in ctor_defs:
                bad = bad_ctor_args(c, rec, keys_of(c))
                if bad:
                    return "bad-create", bad
            return "create-if-absent", tname
    # counter: x[k] = x.get(k, 0) + 1  /  x += 1
    if isinstance(st, ast.AugAssign) and isinstance(st.op, ast.Add):
        return "counter", tname
    if isinstance(value, ast.BinOp) and isinstance(value.op, ast.Add) and isinstance(target, ast.Subscript):
        for step, old_v in ((value.right, value.left), (value.left, value.right)):
            if isinstance(step, ast.Constant) and isinstance(step.value, int) and not isinstance(step.value, bool) and step.value > 0 and is_old_entry(fn, old_v, target):
                return "counter", tname
    # flag := True
    if isinstance(value, ast.Constant) and value.value is True:
        return "flag", tname
    # c[k] = <constant> reached only when c holds nothing under k: `c.setdefault(k, <constant>)` spelled as a test and a
    # store (the initial value of a counter entry); absence is decided on the CFG - every path to the store passes an
    # edge that guarantees it
    if isinstance(target, ast.Subscript) and isinstance(value, ast.Constant) and isinstance(st, (ast.Assign, ast.AnnAssign)):
        g0 = _cfg_of(fn)
        ids = g0.nodes_for(st)
        if ids and not (set(ids) & set(_reach_without_absence(fn, g0, target.value, target.slice))):
            return "create-if-absent", tname
    # min/max merge: guarded by (x is None or v < x) / (v > x)
    field = dotted_name(target)
    vname = dotted_name(value) if value is not None else None
    for t, pol in guards:
        if not pol:
            continue
        for cmp_ in [n for n in ast.walk(t) if isinstance(n, ast.Compare) and len(n.ops) == 1 and isinstance(n.ops[0], (ast.Lt, ast.Gt, ast.LtE, ast.GtE))]:
            l, r = dotted_name(cmp_.left), dotted_name(cmp_.comparators[0])
            if {l, r} == {vname, field} and vname is not None:
                none_alt = any(isinstance(c, ast.Compare) and isinstance(c.ops[0], ast.Is) and dotted_name(c.left) == field for c in ast.walk(t))
                if none_alt or _minmax_by_flow(fn, st, target, value) is not None:
                    return "minmax", tname
                return "bad-minmax", "min/max merge without the `is None` alternative"
    mm = _minmax_by_flow(fn, st, target, value)
    if mm is not None:
        return mm, tname
    # assign-if-present from the record
    if value is not None and _is_record_read(value, rec) or (vname in derived):
        present = any(pol and (_is_record_read(t, rec) or any(isinstance(x, ast.Name) and x.id in derived for x in ast.walk(t))) for t, pol in guards)
        if is_ser:
            attr = target.attr if isinstance(target, ast.Attribute) else ""
            if attr in SER_LAST_WRITER:
                return "last-writer-ser", tname
            return "bad-overwrite", "a SER field overwrites shared state unconditionally"
        if is_unique:
            return ("assign-if-present" if present else "assign-unique"), tname
    if is_ser and isinstance(target, ast.Attribute) and target.attr in SER_LAST_WRITER:
        return "last-writer-ser", tname
    return "unclassified", tname


def _cfg_of(fn: ast.AST):
    from ..cfg import CFG
    g = getattr(fn, "_c13_cfg", None)
    if g is None:
        g = CFG(fn)
        fn._c13_cfg = g  # type: ignore[attr-defined]
    return g


def _minmax_by_flow(fn: ast.AST, st: ast.AST, target: ast.AST, value: Optional[ast.AST]) -> Optional[str]:
    """``F = v`` is a min / max merge when it happens exactly under ``F is None or v < F`` (one direction), however
    the condition is spread over tests: decided on the CFG for the group of stores of the same value into the same
    field - every one of them is dominated by edges guaranteeing the condition, and both the `is None` alternative and
    the ordering test guard some member.  Also ``F = v if F is None else min(F, v)``."""
    from ..cfg import edges_guaranteeing

    if value is None or not isinstance(st, (ast.Assign, ast.AnnAssign)) or not isinstance(target, ast.Attribute):
        return None
    F = _d(target)

    def none_atom(e: ast.AST) -> Optional[bool]:
        if _d(e) == F:
            return False
        if isinstance(e, ast.Compare) and len(e.ops) == 1 and _d(e.left) == F and _is_none(e.comparators[0]):
            return True if isinstance(e.ops[0], (ast.Is, ast.Eq)) else False if isinstance(e.ops[0], (ast.IsNot, ast.NotEq)) else None
        return None

    if isinstance(value, ast.IfExp):
        edges = edges_guaranteeing(value.test, none_atom)
        first, other = (value.body, value.orelse) if "T" in edges else (value.orelse, value.body) if "F" in edges else (None, None)
        if first is not None and isinstance(other, ast.Call) and call_name(other) in ("min", "max") and len(other.args) == 2 and not other.keywords:
            if sorted(_d(a) for a in other.args) == sorted([F, _d(first)]):
                return "minmax"
        return None
    V = _d(value)
    g = _cfg_of(fn)
    group = [n for n in walk_no_nested(fn) if isinstance(n, (ast.Assign, ast.AnnAssign)) and n.value is not None and _d(n.value) == V and any(_d(t) == F for t in (n.targets if isinstance(n, ast.Assign) else [n.target]))]
    for direction in ("lt", "gt"):
        def cmp_atom(e: ast.AST) -> Optional[bool]:
            if isinstance(e, ast.Compare) and len(e.ops) == 1:
                l, r, op = _d(e.left), _d(e.comparators[0]), e.ops[0]
                less = isinstance(op, (ast.Lt, ast.LtE))
                more = isinstance(op, (ast.Gt, ast.GtE))
                if (l, r) == (V, F) and (less or more):
                    return (less if direction == "lt" else more) or None
                if (l, r) == (F, V) and (less or more):
                    return (more if direction == "lt" else less) or None
            return None

        def either(e: ast.AST) -> Optional[bool]:
            a = none_atom(e)
            if a is True:
                return True
            c = cmp_atom(e)
            if c is True:
                return True
            return a  # `F` / `F is not None` is the negation of the None alternative only

        blocked: Set[Tuple[int, str]] = set()
        has_none = has_cmp = False
        tests = [n for n in g.nodes if n.kind in ("if", "while") and n.part is not None]
        for n in tests:
            for lab in edges_guaranteeing(n.part, lambda e: True if none_atom(e) is True else True if cmp_atom(e) is True else None):
                blocked.add((n.id, lab))
            # `not F` style: the None alternative as the false edge of a truthiness test
            for lab in edges_guaranteeing(n.part, none_atom):
                blocked.add((n.id, lab))
        seen = g.reach([g.entry], blocked_edges=blocked)
        nodes = [x for n in group for x in g.nodes_for(n)]
        if not nodes or any(x in seen for x in nodes):
            continue
        for n in tests:
            for atom, which in ((none_atom, "none"), (cmp_atom, "cmp")):
                for lab in edges_guaranteeing(n.part, atom):
                    starts = [x for x, l in g.succ[n.id] if l == lab]
                    if starts and set(nodes) & set(g.reach(starts)):
                        if which == "none":
                            has_none = True
                        else:
                            has_cmp = True
        if has_none and has_cmp:
            return "minmax"
    return None


# ---------------------------------------------------------------------------------------------------------
# helpers shared by the rules below
# ---------------------------------------------------------------------------------------------------------

def _d(e: Optional[ast.AST]) -> str:
    return "" if e is None else ast.dump(e, include_attributes=False).replace("ctx=Store()", "ctx=Load()")


def _expr(src: str) -> ast.AST:
    return ast.parse(src, mode="eval").body


def _root_name(e: ast.AST) -> Optional[str]:
    """Name at the bottom of an attribute / subscript / method-call chain (``a.b[c].get(d).e`` -> ``a``)."""
    while True:
        if isinstance(e, (ast.Attribute, ast.Subscript, ast.Starred)):
            e = e.value
        elif isinstance(e, ast.Call) and isinstance(e.func, ast.Attribute):
            e = e.func.value
        elif isinstance(e, ast.Name):
            return e.id
        else:
            return None


STORE_METHODS = {"append", "extend", "add", "update", "pop", "popitem", "setdefault", "clear", "remove", "insert", "discard", "sort", "reverse", "appendleft", "popleft", "__setitem__", "__delitem__", "difference_update", "intersection_update", "symmetric_difference_update"}
# builtins whose result is a new object that shares no mutable container with its arguments
FRESH_BUILTINS = {"set", "sorted", "list", "dict", "tuple", "frozenset", "len", "round", "max", "min", "sum", "str", "int", "float", "bool", "any", "all", "repr", "abs"}


def _store_sites(fn: ast.AST) -> List[Tuple[ast.AST, ast.AST]]:
    """(statement-or-call, mutated object expression) for every store through an attribute / subscript / mutator call."""
    out: List[Tuple[ast.AST, ast.AST]] = []
    for n in walk_no_nested(fn):
        tgts: List[ast.AST] = []
        if isinstance(n, ast.Assign):
            tgts = list(n.targets)
        elif isinstance(n, (ast.AugAssign, ast.AnnAssign)):
            tgts = [n.target] if not (isinstance(n, ast.AnnAssign) and n.value is None) else []
        elif isinstance(n, ast.Delete):
            tgts = list(n.targets)
        flat: List[ast.AST] = []
        for t in tgts:
            flat.extend(t.elts if isinstance(t, (ast.Tuple, ast.List)) else [t])
        for t in flat:
            if isinstance(t, (ast.Attribute, ast.Subscript)):
                out.append((n, t))
        if isinstance(n, ast.Call):
            if isinstance(n.func, ast.Attribute) and n.func.attr in STORE_METHODS:
                out.append((n, n.func))
            elif call_name(n) in ("setattr", "delattr") and n.args:
                out.append((n, ast.Attribute(value=n.args[0], attr="?", ctx=ast.Store())))
    return out


def fresh_result_methods(cls: ast.ClassDef) -> Set[str]:
    """Methods of the aggregator whose declared result is a newly built verdict (or nothing), not stored state."""
    out: Set[str] = set()
    for m in cls.body:
        if isinstance(m, FuncNode) and m.returns is not None:
            r = ast.unparse(m.returns)
            if "Aggregate" not in r and ("Completeness" in r or r == "None"):
                out.add(m.name)
    return out


def _state_aliases(fn: ast.AST, seeds: Set[str], fresh_methods: Set[str] = frozenset()) -> Set[str]:
    """Locals that may refer to (a part of) an object reachable from one of *seeds* (may-alias, flow-insensitive)."""
    rooted = set(seeds)

    def may_alias(e: Optional[ast.AST]) -> bool:
        if e is None:
            return False
        if isinstance(e, ast.Name):
            return e.id in rooted
        if isinstance(e, (ast.Attribute, ast.Subscript, ast.Starred)):
            return may_alias(e.value)
        if isinstance(e, ast.BoolOp):
            return any(may_alias(v) for v in e.values)
        if isinstance(e, ast.IfExp):
            return may_alias(e.body) or may_alias(e.orelse)
        if isinstance(e, ast.NamedExpr):
            return may_alias(e.value)
        if isinstance(e, (ast.Tuple, ast.List)) and isinstance(getattr(e, "ctx", None), ast.Load):
            return any(may_alias(x) for x in e.elts)  # unpacked on the other side
        if isinstance(e, ast.Call):
            if isinstance(e.func, ast.Name):
                if e.func.id in FRESH_BUILTINS:
                    return False
                if e.func.id[:1].isupper():
                    return False  # constructor: a new object
                return any(may_alias(a) for a in list(e.args) + [k.value for k in e.keywords])
            if isinstance(e.func, ast.Attribute):
                if may_alias(e.func.value):
                    # a method of a state object hands out stored objects (container accessors, get_run), except the
                    # methods of the analysed class that are declared to build a new verdict object
                    return not (isinstance(e.func.value, ast.Name) and e.func.value.id == "self" and e.func.attr in fresh_methods)
                return any(may_alias(a) for a in list(e.args) + [k.value for k in e.keywords])
        return False

    changed = True
    while changed:
        changed = False
        for n in walk_no_nested(fn):
            pairs: List[Tuple[ast.AST, Optional[ast.AST]]] = []
            if isinstance(n, ast.Assign):
                pairs = [(t, n.value) for t in n.targets]
            elif isinstance(n, ast.AnnAssign):
                pairs = [(n.target, n.value)]
            elif isinstance(n, (ast.For, ast.AsyncFor)):
                pairs = [(n.target, n.iter)]
            elif isinstance(n, ast.comprehension):
                pairs = [(n.target, n.iter)]
            elif isinstance(n, ast.NamedExpr):
                pairs = [(n.target, n.value)]
            elif isinstance(n, ast.withitem) and n.optional_vars is not None:
                pairs = [(n.optional_vars, n.context_expr)]
            for tgt, val in pairs:
                if not may_alias(val):
                    continue
                for x in ast.walk(tgt):
                    if isinstance(x, ast.Name) and isinstance(x.ctx, ast.Store) and x.id not in rooted:
                        rooted.add(x.id)
                        changed = True
    return rooted


# ---------------------------------------------------------------------------------------------------------
# D1b: an aggregate that receives a merge is (already) stored in the aggregator
# ---------------------------------------------------------------------------------------------------------

def _leaves(e: ast.AST) -> List[ast.AST]:
    """Alternatives an expression may evaluate to (`a or b`, `x if c else y`, `d.get(k, default)`)."""
    if isinstance(e, ast.BoolOp):
        return [l for v in e.values for l in _leaves(v)]
    if isinstance(e, ast.IfExp):
        return _leaves(e.body) + _leaves(e.orelse)
    if isinstance(e, ast.NamedExpr):
        return _leaves(e.value)
    if isinstance(e, ast.Call) and isinstance(e.func, ast.Attribute) and e.func.attr == "get" and len(e.args) == 2:
        return [ast.Call(func=e.func, args=[e.args[0]], keywords=[])] + _leaves(e.args[1])
    return [e]


def check_registered(R: Report, rule: str, fn: ast.FunctionDef, qual: str, rec: str, fresh_methods: Set[str] = frozenset()) -> None:
    """Every aggregate object an ingest method writes to comes out of a container reachable from ``self`` or, when
    it is constructed on the spot, is stored into such a container on every path before the method ends."""
    from ..cfg import CFG, reaching_defs

    g = CFG(fn)
    state = _state_aliases(fn, {"self"}, fresh_methods)
    # locals bound to freshly constructed aggregates also count as roots for nested containers (run.nodes[...] = node)
    fresh_locals: Set[str] = set()
    for n in walk_no_nested(fn):
        if isinstance(n, (ast.Assign, ast.AnnAssign)) and n.value is not None:
            tg = n.targets[0] if isinstance(n, ast.Assign) else n.target
            if isinstance(tg, ast.Name) and any(isinstance(l, ast.Call) and isinstance(l.func, ast.Name) and l.func.id[:1].isupper() for l in _leaves(n.value)):
                fresh_locals.add(tg.id)

    def node_of(st: ast.AST) -> Optional[int]:
        ids = g.nodes_for(st)
        return ids[0] if ids else None

    def is_registration(node, names: Set[str]) -> bool:
        a = node.ast
        if node.kind != "stmt" or a is None:
            return False
        if isinstance(a, ast.Assign) and isinstance(a.value, ast.Name) and a.value.id in names:
            for t in a.targets:
                if isinstance(t, ast.Subscript) and _root_name(t) in (state | fresh_locals) and _root_name(t) not in names and _root_name(t) != rec:
                    return True
        for c in calls_in(a):
            if isinstance(c.func, ast.Attribute) and c.func.attr in ("setdefault", "__setitem__") and len(c.args) == 2 and isinstance(c.args[1], ast.Name) and c.args[1].id in names and _root_name(c.func) in state:
                return True
        return False

    seen_defs: Set[Tuple[int, int]] = set()

    def origins(name: str, use: int, site: int, aliases: Set[str], site_stmt: ast.AST, depth: int = 0) -> None:
        if depth > 6:
            raise AnalysisError(f"{qual}: alias chain of {name} too deep")
        defs = reaching_defs(g, name, use)
        if not defs:
            raise AnalysisError(f"{qual}: no definition of the written object `{name}` reaches L{getattr(site_stmt, 'lineno', 0)}")
        for dn in defs:
            a = dn.ast
            if dn.kind == "for" or isinstance(a, (ast.For, ast.AsyncFor)):
                if _root_name(a.iter) in state:
                    continue  # iterating stored objects
                raise AnalysisError(f"{qual}: `{name}` iterates over something that is not aggregator state")
            if not isinstance(a, (ast.Assign, ast.AnnAssign)) or a.value is None:
                raise AnalysisError(f"{qual}: definition of `{name}` has an unknown shape: {norm(a)}")
            tg = a.targets[0] if isinstance(a, ast.Assign) else a.target
            if not isinstance(tg, ast.Name):
                raise AnalysisError(f"{qual}: `{name}` is bound by unpacking: {norm(a)}")
            for leaf in _leaves(a.value):
                if isinstance(leaf, ast.Constant):
                    continue  # None / falsy alternative: a write through it would raise, not lose data
                if isinstance(leaf, ast.Name):
                    origins(leaf.id, dn.id, site, aliases | {name}, site_stmt, depth + 1)
                    continue
                is_lookup = (isinstance(leaf, ast.Subscript) or (isinstance(leaf, ast.Call) and isinstance(leaf.func, ast.Attribute) and leaf.func.attr in ("get", "setdefault") and len(leaf.args) <= 2) or isinstance(leaf, ast.Attribute)) and _root_name(leaf) in (state | fresh_locals) and _root_name(leaf) != rec
                if is_lookup:
                    continue  # what the aggregator already holds (setdefault stores its default itself)
                if isinstance(leaf, ast.Call) and isinstance(leaf.func, ast.Name) and leaf.func.id[:1].isupper():
                    key = (dn.id, site)
                    if key in seen_defs:
                        continue
                    seen_defs.add(key)
                    names = aliases | {name}
                    # lost iff some path construction -> merge -> normal return never stores the object
                    bad = g.must_pass([dn.id], [site], lambda nd: is_registration(nd, names), skip_labels={"EXC", "BASE"})
                    if bad:
                        tail = g.must_pass([site], [g.ret_exit], lambda nd: is_registration(nd, names), skip_labels={"EXC", "BASE"})
                        bad = [(bad[0][0], bad[0][1] + tail[0][1][1:])] if tail else []
                    R.check(not bad, rule, AGG, qual, norm(a), f"the `{leaf.func.id}` constructed here receives the merge at L{getattr(site_stmt, 'lineno', 0)} (`{norm(site_stmt, 60)}`) without having been stored in a container of the aggregator: when this record is the first one seen for its key the merge is thrown away, so the verdict depends on the ingest order", getattr(a, "lineno", 0), path=bad[0][1] if bad else None, what_ok="registered-before-merge")
                    continue
                raise AnalysisError(f"{qual}: origin of the written object `{name}` not understood: {norm(leaf)}")

    for st, obj in _store_sites(fn):
        root = _root_name(obj)
        if root is None or root == "self" or root == rec:
            continue
        if root not in state and root not in fresh_locals:
            continue  # scratch local (a dict / list built here)
        stmt = stmt_of(st) if not isinstance(st, ast.stmt) else st
        sid = node_of(stmt)
        if sid is None:
            raise AnalysisError(f"{qual}: no CFG node for {norm(stmt)}")
        # the registration statement itself (`run.nodes[k] = node`) is a store into `run`, handled like any other
        origins(root, sid, sid, set(), stmt)


# ---------------------------------------------------------------------------------------------------------
# D2b: finalisation is total on partially filled aggregates (no ordering of a possibly-None field)
# ---------------------------------------------------------------------------------------------------------

MODELS = "semantiva/trace/aggregation/models.py"


def optional_fields(repo: Repo) -> Set[str]:
    """Fields of the aggregate dataclasses that are None until the record that sets them has been ingested."""
    mod = repo.module(MODELS)
    out: Set[str] = set()
    for c in mod.tree.body:
        if isinstance(c, ast.ClassDef) and c.name.endswith("Aggregate"):
            for st in c.body:
                if isinstance(st, ast.AnnAssign) and isinstance(st.target, ast.Name) and isinstance(st.value, ast.Constant) and st.value.value is None:
                    out.add(st.target.id)
    return out


def _nonnull_edges(test: ast.AST, D: str) -> Set[str]:
    from ..cfg import edges_guaranteeing

    def atom(e: ast.AST) -> Optional[bool]:
        if _d(e) == D:
            return True
        if isinstance(e, ast.Compare) and len(e.ops) == 1 and _d(e.left) == D and isinstance(e.comparators[0], ast.Constant) and e.comparators[0].value is None:
            if isinstance(e.ops[0], (ast.IsNot, ast.NotEq)):
                return True
            if isinstance(e.ops[0], (ast.Is, ast.Eq)):
                return False
        if isinstance(e, ast.Call) and call_name(e) == "isinstance" and e.args and _d(e.args[0]) == D:
            return True
        return None

    return edges_guaranteeing(test, atom)


def _terminates(body: List[ast.stmt]) -> bool:
    return bool(body) and isinstance(body[-1], (ast.Return, ast.Raise, ast.Continue, ast.Break))


def nonnull_guarded(use: ast.AST, D: str, stop: ast.AST) -> bool:
    """True iff on every way of evaluating *use* the expression with dump *D* is known to be not None
    (short-circuit operand, enclosing if / conditional expression / comprehension filter, or an earlier early exit)."""
    child = use
    for a in ancestors(use):
        if isinstance(a, ast.BoolOp):
            idx = next((i for i, v in enumerate(a.values) if v is child), None)
            if idx is not None:
                for v in a.values[:idx]:
                    e = _nonnull_edges(v, D)
                    if (isinstance(a.op, ast.And) and "T" in e) or (isinstance(a.op, ast.Or) and "F" in e):
                        return True
        elif isinstance(a, (ast.If, ast.While)):
            e = _nonnull_edges(a.test, D)
            if any(child is s for s in a.body) and "T" in e:
                return True
            if any(child is s for s in a.orelse) and "F" in e and isinstance(a, ast.If):
                return True
        elif isinstance(a, ast.IfExp):
            e = _nonnull_edges(a.test, D)
            if (child is a.body and "T" in e) or (child is a.orelse and "F" in e):
                return True
        elif isinstance(a, (ast.ListComp, ast.SetComp, ast.GeneratorExp, ast.DictComp)):
            if child is not None and not isinstance(child, ast.comprehension):
                if any("T" in _nonnull_edges(c, D) for gen in a.generators for c in gen.ifs):
                    return True
        # an earlier sibling statement that leaves when the value is None
        for fld in ("body", "orelse", "finalbody"):
            blk = getattr(a, fld, None)
            if isinstance(blk, list) and any(child is s for s in blk):
                for s in blk:
                    if s is child:
                        break
                    if isinstance(s, ast.If) and _terminates(s.body) and "F" in _nonnull_edges(s.test, D):
                        return True
        if a is stop:
            break
        child = a
    return False


def check_total(R: Report, rule: str, repo: Repo, fn: ast.AST, qual: str, opt: Set[str]) -> None:
    def is_opt(e: ast.AST) -> bool:
        return isinstance(e, ast.Attribute) and e.attr in opt and isinstance(e.ctx, ast.Load)

    def exposed(e: ast.AST) -> List[ast.AST]:
        """Optional-field reads that can become (a component of) the value of *e* while None."""
        if is_opt(e):
            return [] if nonnull_guarded(e, _d(e), fn) else [e]
        if isinstance(e, (ast.Tuple, ast.List)):
            return [x for el in e.elts for x in exposed(el)]
        if isinstance(e, ast.BoolOp) and isinstance(e.op, ast.Or):
            return exposed(e.values[-1])
        if isinstance(e, ast.BoolOp):
            return [x for v in e.values for x in exposed(v)]
        if isinstance(e, ast.IfExp):
            return exposed(e.body) + exposed(e.orelse)
        return []

    for n in ast.walk(fn):
        if isinstance(n, ast.Compare) and any(isinstance(o, (ast.Lt, ast.Gt, ast.LtE, ast.GtE)) for o in n.ops):
            operands = [n.left] + list(n.comparators)
            for i, o in enumerate(operands):
                ordered = (i > 0 and isinstance(n.ops[i - 1], (ast.Lt, ast.Gt, ast.LtE, ast.GtE))) or (i < len(n.ops) and isinstance(n.ops[i], (ast.Lt, ast.Gt, ast.LtE, ast.GtE)))
                if ordered and is_opt(o):
                    R.check(nonnull_guarded(n, _d(o), fn), rule, AGG, qual, norm(n), f"`{ast.unparse(o)}` is None until the record that sets it has been ingested, and is ordered against another value here without a None guard: for a subset of records that lacks that record the call raises TypeError instead of giving a verdict", getattr(n, "lineno", 0), what_ok="none-guarded comparison")
        if isinstance(n, ast.Call):
            fname = call_name(n) if isinstance(n.func, ast.Name) else (n.func.attr if isinstance(n.func, ast.Attribute) else None)
            if fname not in ("sorted", "min", "max", "sort", "nsmallest", "nlargest", "bisect", "insort"):
                continue
            cands: List[ast.AST] = []
            k = kwarg(n, "key")
            if isinstance(k, ast.Lambda):
                cands.append(k.body)
            elif k is None:
                for a in n.args:
                    if isinstance(a, (ast.ListComp, ast.SetComp, ast.GeneratorExp)):
                        cands.append(a.elt)
                    elif fname in ("min", "max") and len(n.args) > 1:
                        cands.append(a)
            for c in cands:
                bad = exposed(c)
                if any(is_opt(x) for x in ast.walk(c)):
                    R.check(not bad, rule, AGG, qual, norm(n), f"the ordering key contains `{ast.unparse(bad[0]) if bad else ''}`, which is None for an aggregate whose defining record is not in the ingested set: comparing None with a value raises TypeError, so there is no verdict for that subset of records", getattr(n, "lineno", 0), what_ok="ordering key cannot be None")


# ---------------------------------------------------------------------------------------------------------
# D3: decision tree of a verdict variable
# ---------------------------------------------------------------------------------------------------------

class _Unknown:
    def __init__(self, e: ast.AST) -> None:
        self.src = ast.unparse(e)

    def __repr__(self) -> str:
        return f"<{self.src}>"

    def __eq__(self, other) -> bool:
        return False

    __hash__ = object.__hash__


BOOL_FIELDS: Set[str] = set()  # bool-annotated fields of the aggregate classes (filled by _run from models.py)


def _boolean_valued(e: ast.AST) -> bool:
    """The expression evaluates to True / False themselves (so that it can be matched against a bool key)."""
    if isinstance(e, ast.Constant):
        return isinstance(e.value, bool)
    if isinstance(e, ast.Attribute):
        return e.attr in BOOL_FIELDS
    if isinstance(e, ast.UnaryOp) and isinstance(e.op, ast.Not):
        return True
    if isinstance(e, ast.Compare):
        return True
    if isinstance(e, ast.Call):
        return call_name(e) == "bool" and len(e.args) == 1
    if isinstance(e, ast.BoolOp):
        return all(_boolean_valued(v) for v in e.values)
    return False


def _table_tree(e: ast.AST, fn: Optional[ast.AST]):
    """Decision tree of a lookup in a small literal table keyed by booleans (``{(True, False): "partial", ..}.get((a, b),
    default)``): one test per entry - the conjunction of the key components with the entry's polarities."""
    if isinstance(e, ast.Call) and isinstance(e.func, ast.Attribute) and e.func.attr == "get" and 1 <= len(e.args) <= 2 and not e.keywords:
        tbl, key, default = e.func.value, e.args[0], (e.args[1] if len(e.args) == 2 else ast.Constant(value=None))
    elif isinstance(e, ast.Subscript):
        tbl, key, default = e.value, e.slice, None
    else:
        return None
    if isinstance(tbl, ast.Name) and fn is not None:
        vals = assigned_value(fn, tbl.id)
        stores = [x for x in walk_no_nested(fn) if isinstance(x, ast.Name) and x.id == tbl.id and isinstance(x.ctx, ast.Store)]
        if len(vals) != 1 or len(stores) != 1:
            return None
        if any(_root_name(obj) == tbl.id for _st, obj in _store_sites(fn)):
            return None
        tbl = vals[0]
    if not isinstance(tbl, ast.Dict) or not tbl.keys or any(k is None for k in tbl.keys):
        return None
    elems = list(key.elts) if isinstance(key, ast.Tuple) else [key]
    if not all(_boolean_valued(x) for x in elems):
        return None
    rows = []
    for k, v in zip(tbl.keys, tbl.values):
        ks = list(k.elts) if isinstance(k, ast.Tuple) else [k]
        if len(ks) != len(elems) or not all(isinstance(x, ast.Constant) and isinstance(x.value, bool) for x in ks) or isinstance(k, ast.Tuple) != isinstance(key, ast.Tuple):
            return None
        rows.append(([x.value for x in ks], v))
    tree = _tree_of_expr(default, fn) if default is not None else ("leaf", _Unknown(e))
    for pol, v in reversed(rows):
        parts = [x if p else ast.UnaryOp(op=ast.Not(), operand=x) for x, p in zip(elems, pol)]
        test = parts[0] if len(parts) == 1 else ast.BoolOp(op=ast.And(), values=parts)
        ast.copy_location(test, e)
        ast.fix_missing_locations(test)
        tree = ("if", test, _tree_of_expr(v, fn), tree)
    return tree


def _tree_of_expr(e: ast.AST, fn: Optional[ast.AST] = None):
    if isinstance(e, ast.Constant):
        return ("leaf", e.value)
    if isinstance(e, ast.IfExp):
        return ("if", e.test, _tree_of_expr(e.body, fn), _tree_of_expr(e.orelse, fn))
    if isinstance(e, ast.Call) and call_name(e) == "cast" and len(e.args) == 2:
        return _tree_of_expr(e.args[1], fn)
    t = _table_tree(e, fn)
    if t is not None:
        return t
    return ("leaf", _Unknown(e))


def value_tree(fn: ast.FunctionDef, value: ast.AST, at: ast.AST):
    """Decision tree (over the tests of if statements / conditional expressions) of the constant that *value*
    holds when statement *at* (a top-level statement of *fn*) is reached."""
    if not isinstance(value, ast.Name):
        return _tree_of_expr(value, fn)
    var = value.id

    def assigns(node: ast.AST) -> bool:
        return any(isinstance(x, ast.Name) and x.id == var and isinstance(x.ctx, ast.Store) for x in ast.walk(node))

    def block(stmts: List[ast.stmt], cur):
        for st in stmts:
            if st is at:
                break
            if isinstance(st, (ast.Assign, ast.AnnAssign)) and assigns(st):
                tg = st.targets[0] if isinstance(st, ast.Assign) else st.target
                if not (isinstance(tg, ast.Name) and (isinstance(st, ast.AnnAssign) or len(st.targets) == 1)):
                    raise AnalysisError(f"{fn.name}: verdict variable {var} assigned by unpacking")
                if st.value is not None:
                    cur = _tree_of_expr(st.value, fn)
            elif isinstance(st, ast.If):
                b = block(st.body, cur)
                o = block(st.orelse, cur)
                if b is not cur or o is not cur:
                    cur = ("if", st.test, b, o)
            elif assigns(st):
                raise AnalysisError(f"{fn.name}: verdict variable {var} assigned inside {type(st).__name__}")
        return cur

    tree = block(fn.body, None)
    if tree is None:
        raise AnalysisError(f"{fn.name}: no assignment of the verdict variable {var} found")
    return tree


def _block_after(stmt: ast.stmt) -> Optional[List[ast.stmt]]:
    p = parent(stmt)
    for fld in ("body", "orelse", "finalbody"):
        blk = getattr(p, fld, None)
        if isinstance(blk, list) and any(stmt is s for s in blk):
            i = next(i for i, s in enumerate(blk) if s is stmt)
            return blk[i + 1:]
    return None


def local_definition(fn: ast.AST, use: ast.Name) -> Optional[ast.AST]:
    """The expression a local stands for at *use*: its only definition, in a block that also holds the use later on,
    with nothing in between that writes to (or through) a name the expression reads."""
    stores = [n for n in walk_no_nested(fn) if isinstance(n, ast.Name) and n.id == use.id and isinstance(n.ctx, ast.Store)]
    if len(stores) != 1:
        return None
    d = parent(stores[0])
    if not (isinstance(d, (ast.Assign, ast.AnnAssign)) and d.value is not None and (d.target if isinstance(d, ast.AnnAssign) else d.targets[0]) is stores[0] and (isinstance(d, ast.AnnAssign) or len(d.targets) == 1)):
        return None
    later = _block_after(d)
    if later is None or not any(use is x for st in later for x in ast.walk(st)):
        return None
    free = {x.id for x in ast.walk(d.value) if isinstance(x, ast.Name)}
    for st in later:
        for x in ast.walk(st):
            if isinstance(x, ast.Name) and isinstance(x.ctx, (ast.Store, ast.Del)) and x.id in free:
                return None
        for _site, obj in _store_sites(st):
            if _root_name(obj) in free or _root_name(obj) == use.id:
                return None
    return d.value


def eval_tree(tree, atom_of, env: Dict[str, bool], fn: Optional[ast.AST] = None):
    def ev(e: ast.AST) -> bool:
        k = atom_of(e)
        if k is not None:
            if k not in env:
                raise AnalysisError(f"verdict test uses an atom outside the table: {ast.unparse(e)}")
            return env[k]
        if isinstance(e, ast.Name) and fn is not None:
            v = local_definition(fn, e)
            if v is not None:
                return ev(v)
        if isinstance(e, ast.UnaryOp) and isinstance(e.op, ast.Not):
            return not ev(e.operand)
        if isinstance(e, ast.BoolOp):
            vals = [ev(v) for v in e.values]
            return all(vals) if isinstance(e.op, ast.And) else any(vals)
        if isinstance(e, ast.Constant):
            return bool(e.value)
        if isinstance(e, ast.Call) and call_name(e) == "bool" and len(e.args) == 1:
            return ev(e.args[0])
        if isinstance(e, ast.Call) and call_name(e) == "len" and len(e.args) == 1:
            return ev(e.args[0])
        if isinstance(e, ast.Compare) and len(e.ops) == 1 and isinstance(e.comparators[0], ast.Constant):
            c, op = e.comparators[0].value, e.ops[0]
            if c == 0 and c is not False and isinstance(op, (ast.Gt, ast.NotEq)):
                return ev(e.left)
            if c == 0 and c is not False and isinstance(op, ast.Eq):
                return not ev(e.left)
            if c == 1 and c is not True and isinstance(op, ast.GtE):
                return ev(e.left)
            if c is True and isinstance(op, (ast.Is, ast.Eq)):
                return ev(e.left)
            if c is False and isinstance(op, (ast.Is, ast.Eq)):
                return not ev(e.left)
        key = "?" + ast.unparse(e)
        if key in env:
            return env[key]
        raise _NeedAtom(key)

    cur = tree
    while cur is not None and cur[0] == "if":
        cur = cur[2] if ev(cur[1]) else cur[3]
    return None if cur is None else cur[1]


class _NeedAtom(Exception):
    def __init__(self, key: str) -> None:
        super().__init__(key)
        self.key = key


def eval_all(tree, atom_of, env: Dict[str, bool], fn: Optional[ast.AST] = None) -> Tuple[List[str], List[object]]:
    """Verdicts of one table row for every value of the tests that are not atoms of the documented table
    (they are treated as free booleans: the documented verdict is a function of the table's atoms alone)."""
    extras: List[str] = []
    while True:
        try:
            out = []
            for vals in itertools.product([True, False], repeat=len(extras)):
                e2 = dict(env)
                e2.update(zip(extras, vals))
                out.append(eval_tree(tree, atom_of, e2, fn))
            return extras, out
        except _NeedAtom as need:
            if len(extras) >= 5:
                raise AnalysisError(f"verdict tests use too many conditions outside the table: {extras}")
            extras.append(need.key)


def _row_check(R: Report, rule: str, qual: str, label: str, want: str, extras: List[str], results: List[object], line: int) -> None:
    ok = all(r == want for r in results)
    distinct = sorted({repr(r) for r in results})
    dep = f" depending on {', '.join('`' + x[1:] + '`' for x in extras)}, which is not part of the documented decision table" if extras and len(distinct) > 1 else ""
    R.check(ok, rule, AGG, qual, f"{label} -> {want}", f"verdict is {' / '.join(distinct)}{dep}", line)


def _final_ctor(fn: ast.FunctionDef, cls_name: str) -> Tuple[ast.Call, ast.stmt]:
    """The verdict object built for a known aggregate: the constructor call whose status is not a literal."""
    out = []
    for c in calls_in(fn):
        if call_name(c) == cls_name or call_attr(c) == cls_name:
            s = kwarg(c, "status")
            if s is None:
                continue
            t = _tree_of_expr(s)
            if t[0] == "leaf" and not isinstance(t[1], _Unknown):
                continue
            out.append(c)
    if not out:
        allc = [c for c in calls_in(fn) if (call_name(c) == cls_name or call_attr(c) == cls_name) and kwarg(c, "status") is not None]
        if not allc:
            raise AnalysisError(f"{fn.name}: no {cls_name}(status=...) found")
        out = allc  # every verdict is a literal: the table rows decide whether that can be right
    c = out[-1]
    st = stmt_of(c)
    while parent(st) is not None and parent(st) is not fn:
        st = parent(st)
    return c, st


# ---------------------------------------------------------------------------------------------------------
# D1c: an entry of an aggregate container is created when absent, never replaced or removed
# ---------------------------------------------------------------------------------------------------------

REMOVERS = {"pop", "popitem", "clear", "remove", "discard", "__delitem__", "difference_update", "intersection_update", "symmetric_difference_update"}


def _is_none(e: ast.AST) -> bool:
    return isinstance(e, ast.Constant) and e.value is None


def _reach_without_absence(fn: ast.AST, g, cont: ast.AST, key: ast.AST) -> Set[int]:
    """CFG nodes reachable from the entry without passing an edge that guarantees that ``cont`` holds nothing under
    ``key`` (`key not in cont`, `cont.get(key) is None`, a local holding the lookup tested for None / falsiness)."""
    from ..cfg import edges_guaranteeing, reaching_defs

    c, k = ast.unparse(cont), ast.unparse(key)
    forms = {_d(_expr(s)) for s in (f"{c}.get({k})", f"{c}.get({k}, None)", f"{c}[{k}]")}

    def absent_atom_at(test_node: int):
        def holds_lookup(e: ast.AST) -> bool:
            if _d(e) in forms:
                return True
            if isinstance(e, ast.NamedExpr):
                return holds_lookup(e.value)
            if isinstance(e, ast.Name):
                defs = reaching_defs(g, e.id, test_node)
                return bool(defs) and all(isinstance(d.ast, (ast.Assign, ast.AnnAssign)) and d.ast.value is not None and _d(d.ast.value) in forms for d in defs)
            return False

        def atom(e: ast.AST) -> Optional[bool]:
            if holds_lookup(e):
                return False  # truthy lookup result: an entry exists
            if isinstance(e, ast.Name):
                # a local that names the outcome of the membership / None test (`known = k in c`): decided on the bound
                # expression when every definition reaching the test binds the same one and the container is not
                # stored into in between (the definitions dominate the test with no store on the way)
                defs = reaching_defs(g, e.id, test_node)
                vals = [d.ast.value for d in defs if isinstance(d.ast, (ast.Assign, ast.AnnAssign)) and d.ast.value is not None and isinstance((d.ast.targets[0] if isinstance(d.ast, ast.Assign) else d.ast.target), ast.Name)]
                if defs and len(vals) == len(defs) and len({_d(v) for v in vals}) == 1 and isinstance(vals[0], (ast.Compare, ast.UnaryOp, ast.BoolOp)) and not any(isinstance(x, ast.Name) and x.id == e.id for x in ast.walk(vals[0])):
                    stores = [x for st_, obj_ in _store_sites(fn) if _root_name(obj_) == _root_name(cont) for x in g.nodes_for(st_ if isinstance(st_, ast.stmt) else stmt_of(st_))]
                    between = set(g.reach([d.id for d in defs], blocked={test_node})) - {d.id for d in defs}
                    if not (set(stores) & between):
                        from ..cfg import edges_guaranteeing as _eg
                        eg = _eg(vals[0], atom)
                        return True if eg == {"T"} else False if eg == {"F"} else None
                return None
            if isinstance(e, ast.Compare) and len(e.ops) == 1:
                l, op, r = e.left, e.ops[0], e.comparators[0]
                if _is_none(r) and holds_lookup(l):
                    return True if isinstance(op, (ast.Is, ast.Eq)) else False if isinstance(op, (ast.IsNot, ast.NotEq)) else None
                in_cont = _d(l) == _d(key) and (_d(r) == _d(cont) or _d(r) == _d(_expr(f"{ast.unparse(cont)}.keys()")))
                if in_cont and isinstance(op, ast.NotIn):
                    return True
                if in_cont and isinstance(op, ast.In):
                    return False
            return None

        return atom

    blocked: Set[Tuple[int, str]] = set()
    for n in g.nodes:
        if n.kind in ("if", "while") and n.part is not None:
            for lab in edges_guaranteeing(n.part, absent_atom_at(n.id)):
                blocked.add((n.id, lab))
    return g.reach([g.entry], blocked_edges=blocked)


def check_entries_kept(R: Report, rule: str, fn: ast.FunctionDef, qual: str, rec: str, fresh_methods: Set[str] = frozenset(), model_classes: Optional[Set[str]] = None) -> None:
    """Every store ``CONT[K] = V`` into a container reachable from the aggregator is reached only when the lookup of
    K in CONT found nothing (or writes back what the lookup gave); nothing removes an entry or an element."""
    from ..cfg import CFG, edges_guaranteeing, reaching_defs

    g = CFG(fn)
    state = _state_aliases(fn, {"self"}, fresh_methods)
    fresh_locals: Set[str] = set()
    for n in walk_no_nested(fn):
        if isinstance(n, (ast.Assign, ast.AnnAssign)) and n.value is not None:
            tg = n.targets[0] if isinstance(n, ast.Assign) else n.target
            if isinstance(tg, ast.Name) and any(isinstance(l, ast.Call) and isinstance(l.func, ast.Name) and (l.func.id in model_classes if model_classes is not None else l.func.id[:1].isupper()) for l in _leaves(n.value)):
                fresh_locals.add(tg.id)
    roots = (state | fresh_locals) - {rec}

    def lookup_forms(cont: ast.AST, key: ast.AST) -> Set[str]:
        c, k = ast.unparse(cont), ast.unparse(key)
        return {_d(_expr(s)) for s in (f"{c}.get({k})", f"{c}.get({k}, None)", f"{c}[{k}]")}

    for st, obj in _store_sites(fn):
        stmt = st if isinstance(st, ast.stmt) else stmt_of(st)
        line = getattr(stmt, "lineno", 0)
        # removal of an entry / element of stored state
        if isinstance(st, ast.Call) and isinstance(obj, ast.Attribute) and obj.attr in REMOVERS and _root_name(obj.value) in roots:
            R.violation(rule, AGG, qual, norm(stmt), f"`{ast.unparse(obj)}` removes merged state while records are ingested: whether the removed entry comes back depends on which records follow, so the aggregate depends on the ingest order", line)
            continue
        if isinstance(st, ast.Delete) and _root_name(obj) in roots:
            R.violation(rule, AGG, qual, norm(stmt), f"`{norm(stmt)}` removes merged state while records are ingested: the aggregate depends on the ingest order", line)
            continue
        if not (isinstance(st, (ast.Assign, ast.AnnAssign)) and isinstance(obj, ast.Subscript) and isinstance(obj.ctx, ast.Store)):
            continue
        if _root_name(obj) not in roots:
            continue
        value = st.value
        cont, key = obj.value, obj.slice
        # counters (`c[k] = c.get(k, 0) + 1`) are merges of the old value, not replacements
        if isinstance(value, ast.BinOp) and isinstance(value.op, ast.Add) and any(_d(x) in lookup_forms(cont, key) or is_old_entry(fn, x, obj) or (isinstance(x, ast.Call) and call_attr(x) == "get" and x.args and _d(x.func.value) == _d(cont) and _d(x.args[0]) == _d(key)) for x in (value.left, value.right)):
            continue
        forms = lookup_forms(cont, key)
        sids = g.nodes_for(stmt)
        if not sids:
            raise AnalysisError(f"{qual}: no CFG node for {norm(stmt)}")
        sid = sids[0]

        def writes_back(e: ast.AST, use: int, depth: int = 0) -> bool:
            """The stored value is what the lookup gave whenever the lookup gave something."""
            if depth > 4:
                return False
            if isinstance(e, ast.BoolOp) and isinstance(e.op, ast.Or) and _d(e.values[0]) in forms:
                return True
            if isinstance(e, ast.Call) and call_attr(e) in ("get", "setdefault") and len(e.args) == 2 and _d(e.func.value) == _d(cont) and _d(e.args[0]) == _d(key):
                return True
            if _d(e) in forms:
                return True
            if isinstance(e, ast.Name):
                defs = reaching_defs(g, e.id, use)
                return bool(defs) and all(isinstance(d.ast, (ast.Assign, ast.AnnAssign)) and d.ast.value is not None and isinstance((d.ast.targets[0] if isinstance(d.ast, ast.Assign) else d.ast.target), ast.Name) and writes_back(d.ast.value, d.id, depth + 1) for d in defs)
            return False

        if value is not None and writes_back(value, sid):
            R.ok(rule, AGG, qual, norm(stmt), "writes back what the lookup gave, or a new aggregate when it gave nothing", line)
            continue

        seen = _reach_without_absence(fn, g, cont, key)
        ok = sid not in seen
        R.check(ok, rule, AGG, qual, norm(stmt), f"`{norm(stmt, 70)}` is reached although `{ast.unparse(cont)}` may already hold an aggregate under this key (no test on the way guarantees that the lookup found nothing): the stored aggregate is replaced and everything merged into it so far - flags, attached runs, timestamps - is dropped, so the verdict depends on whether this record was ingested before or after the others", line, path=None if ok else g.path_to(seen, sid), what_ok="stored only when the key is absent")


# ---------------------------------------------------------------------------------------------------------
# D1d: what happens to a record does not depend on what was ingested before it
# ---------------------------------------------------------------------------------------------------------

def _mutable_default_params(fn: ast.AST) -> Set[str]:
    a = fn.args
    pos = a.posonlyargs + a.args
    out: Set[str] = set()
    for p, dflt in list(zip(pos[len(pos) - len(a.defaults):], a.defaults)) + [(p, d) for p, d in zip(a.kwonlyargs, a.kw_defaults) if d is not None]:
        if isinstance(dflt, (ast.Dict, ast.List, ast.Set, ast.DictComp, ast.ListComp, ast.SetComp)) or (isinstance(dflt, ast.Call) and call_name(dflt) in ("set", "dict", "list", "defaultdict", "Counter", "deque", "OrderedDict")):
            out.add(p.arg)
    return out


def _pure_methods(cls: ast.ClassDef) -> Set[str]:
    """Methods of the class whose body never touches the instance (their result is a function of the arguments)."""
    out: Set[str] = set()
    for m in cls.body:
        if isinstance(m, FuncNode):
            first = m.args.args[0].arg if m.args.args else None
            static = any(dotted_name(d) == "staticmethod" for d in m.decorator_list)
            if static or first is None or not any(isinstance(x, ast.Name) and x.id == first for x in ast.walk(m)):
                out.add(m.name)
    return out


def _self_attr_of(e: ast.AST, me: str = "self") -> Optional[str]:
    """X when the attribute / subscript / method-call chain *e* starts at ``self.X``."""
    prev = None
    while True:
        if isinstance(e, (ast.Attribute, ast.Subscript, ast.Starred)):
            prev, e = e, e.value
        elif isinstance(e, ast.Call) and isinstance(e.func, ast.Attribute):
            prev, e = e.func, e.func.value
        else:
            break
    if isinstance(e, ast.Name) and e.id == me and isinstance(prev, ast.Attribute):
        return prev.attr
    return None


def _config_attrs(cls: ast.ClassDef) -> Set[str]:
    """Attributes of the aggregator that are fixed at construction (bound in __init__ to a parameter or a constant and
    never written or mutated by another method): reading one brings no earlier record into a decision."""
    init = next((m for m in cls.body if isinstance(m, FuncNode) and m.name == "__init__"), None)
    if init is None:
        return set()
    params = {a.arg for a in init.args.args[1:] + init.args.kwonlyargs}
    cand: Set[str] = set()
    spoiled: Set[str] = set()
    for n in walk_no_nested(init):
        if isinstance(n, (ast.Assign, ast.AnnAssign)) and n.value is not None:
            for t in (n.targets if isinstance(n, ast.Assign) else [n.target]):
                if isinstance(t, ast.Attribute) and isinstance(t.value, ast.Name) and t.value.id == "self":
                    simple = isinstance(n.value, ast.Constant) or (isinstance(n.value, ast.Name) and n.value.id in params) or (isinstance(n.value, ast.Call) and call_name(n.value) in ("bool", "int", "str", "float", "tuple", "frozenset") and all(isinstance(a, ast.Name) and a.id in params for a in n.value.args))
                    (cand if simple and t.attr not in cand else spoiled).add(t.attr)
    for m in cls.body:
        if not isinstance(m, FuncNode):
            continue
        for st, obj in _store_sites(m):
            x = _self_attr_of(obj)
            if x is not None and not (m is init and isinstance(st, (ast.Assign, ast.AnnAssign)) and isinstance(obj, ast.Attribute) and isinstance(obj.value, ast.Name)):
                spoiled.add(x)
    return cand - spoiled


def history_tainted(fn: ast.AST, seeds: Set[str], methods: Set[str], pure: Set[str], config: Set[str] = frozenset()) -> Set[str]:
    """Locals whose value may depend on state that outlives the call (value taint, flow-insensitive)."""
    tainted = set(seeds)

    def reads_history(e: Optional[ast.AST]) -> bool:
        if e is None:
            return False
        skip: Set[int] = set()
        for x in ast.walk(e):
            # `self.m` naming a method of the class is not state; calling a method that never touches the instance neither
            if isinstance(x, ast.Attribute) and isinstance(x.value, ast.Name) and x.value.id == "self" and x.attr in methods:
                par = parent(x)
                called = isinstance(par, ast.Call) and par.func is x
                if not called or x.attr in pure:
                    skip.add(id(x.value))
            elif isinstance(x, ast.Attribute) and isinstance(x.value, ast.Name) and x.value.id == "self" and x.attr in config:
                skip.add(id(x.value))  # fixed at construction: not history
        return any(isinstance(x, ast.Name) and isinstance(x.ctx, ast.Load) and x.id in tainted and id(x) not in skip for x in ast.walk(e))

    changed = True
    while changed:
        changed = False
        for n in walk_no_nested(fn):
            pairs: List[Tuple[ast.AST, Optional[ast.AST]]] = []
            if isinstance(n, ast.Assign):
                pairs = [(t, n.value) for t in n.targets]
            elif isinstance(n, (ast.AnnAssign, ast.AugAssign)):
                pairs = [(n.target, n.value)]
            elif isinstance(n, (ast.For, ast.AsyncFor)):
                pairs = [(n.target, n.iter)]
            elif isinstance(n, ast.NamedExpr):
                pairs = [(n.target, n.value)]
            elif isinstance(n, ast.withitem) and n.optional_vars is not None:
                pairs = [(n.optional_vars, n.context_expr)]
            for tgt, val in pairs:
                if not reads_history(val):
                    continue
                for x in ast.walk(tgt):
                    if isinstance(x, ast.Name) and isinstance(x.ctx, ast.Store) and x.id not in tainted:
                        tainted.add(x.id)
                        changed = True
    history_tainted.reads = reads_history  # type: ignore[attr-defined]
    return tainted


def check_history_free(R: Report, rule: str, fn: ast.FunctionDef, qual: str, sites: List[Tuple[ast.stmt, str, Optional[ast.AST]]], seeds: Set[str], methods: Set[str], pure: Set[str], config: Set[str] = frozenset()) -> None:
    """*sites*: (statement, kind, subject) of the unconditional merges of *fn* (dispatch call, flag := True, set add,
    counter).  None of them may be skipped by a test that reads state left behind by earlier records, unless the edge
    that skips it guarantees that the merge has already been made (idempotence guard)."""
    from ..cfg import CFG, edges_guaranteeing

    g = CFG(fn)
    history_tainted(fn, seeds | _mutable_default_params(fn), methods, pure, config)
    reads_history = history_tainted.reads  # type: ignore[attr-defined]
    tests = [n for n in g.nodes if n.kind in ("if", "while") and n.part is not None and reads_history(n.part)]
    node_of: Dict[int, int] = {}
    for stmt, _kind, _subject in sites:
        sids = g.nodes_for(stmt)
        if not sids:
            raise AnalysisError(f"{qual}: no CFG node for {norm(stmt)}")
        node_of[id(stmt)] = sids[0]
    # per tainted test: what each outgoing edge can still reach within the current iteration of the enclosing loops
    reach_of: Dict[Tuple[int, str], Set[int]] = {}
    for t in tests:
        loops = {nid for a in ancestors(t.ast) if isinstance(a, (ast.For, ast.AsyncFor, ast.While)) for nid in g.nodes_for(a)} if t.ast is not None else set()
        if t.kind == "while":
            loops |= {t.id}
        for lab in ("T", "F"):
            starts = [x for x, l in g.succ[t.id] if l == lab]
            reach_of[(t.id, lab)] = set(g.reach(starts, blocked=loops - set(starts))) if starts else set()
    for stmt, kind, subject in sites:
        sid = node_of[id(stmt)]
        # the same merge written on several branches counts as one
        group = {node_of[id(s2)] for s2, k2, sub2 in sites if k2 == kind and (_d(sub2) == _d(subject) if subject is not None else _d(s2) == _d(stmt))}
        bad = None
        for t in tests:
            for lab, other in (("T", "F"), ("F", "T")):
                if sid not in reach_of[(t.id, lab)] or not any(l == other for _x, l in g.succ[t.id]):
                    continue
                if group & reach_of[(t.id, other)]:
                    continue
                # the merge happens on edge `lab` and is skipped on the other; fine when that edge implies it was made already

                def atom(e: ast.AST) -> Optional[bool]:
                    if subject is None:
                        return None
                    if kind == "flag" and _d(e) == _d(subject):
                        return True
                    if kind == "set-add" and isinstance(e, ast.Compare) and len(e.ops) == 1 and isinstance(subject, ast.Call) and len(subject.args) == 1:
                        if _d(e.left) == _d(subject.args[0]) and _d(e.comparators[0]) == _d(subject.func.value):
                            return True if isinstance(e.ops[0], ast.In) else False if isinstance(e.ops[0], ast.NotIn) else None
                    return None

                if other in edges_guaranteeing(t.part, atom):
                    continue
                # a counter split over the two outcomes of a membership test: `c[k] += n` when the entry exists and, on
                # every path of the other edge, `c[k] = <int>` (the first count) - that store is accepted by the
                # commutative-stores rule only when every path to it passes an edge guaranteeing absence, so here
                # it is enough that the record is counted on both edges
                if kind == "counter" and isinstance(subject, ast.Subscript):
                    def first_count(nd) -> bool:
                        a = nd.ast
                        if nd.kind != "stmt" or not isinstance(a, (ast.Assign, ast.AnnAssign)) or a.value is None:
                            return False
                        if not (isinstance(a.value, ast.Constant) and type(a.value.value) is int):
                            return False
                        return any(_d(tg) == _d(subject) for tg in (a.targets if isinstance(a, ast.Assign) else [a.target]))

                    starts = [x for x, l in g.succ[t.id] if l == other and not first_count(g.nodes[x])]
                    if any(first_count(nd) for nd in g.nodes) and not g.must_pass(starts, [g.ret_exit], first_count, skip_labels={"EXC", "BASE"}):
                        continue
                bad = (t, lab)
                break
            if bad:
                break
        what = ""
        if bad:
            t, lab = bad
            what = f"this {kind} is carried out only when `{norm(t.part, 70)}` (L{t.line}) is {'true' if lab == 'T' else 'false'}, and that test reads state left behind by records ingested earlier (aggregator attributes, module / class level cells, a mutable default): whether the record is merged or dropped depends on what came before it, so the same set of records gives different aggregates in different orders"
        R.check(bad is None, rule, AGG, qual, norm(stmt), what, getattr(stmt, "lineno", 0), what_ok=f"{kind} not conditional on earlier records")


def check_no_process_cells(R: Report, rule: str, repo: Repo, cls: ast.ClassDef) -> None:
    """No function reachable from the aggregator (inside the aggregation package) reads a module-level name or class
    attribute that is written at run time: such a cell is shared by every aggregator of the process and outlives them."""
    from .c04_rest import _class_of_receiver, _imported_names, _local_names, _static_classes, _write_only_use, process_state_cells
    from ..engine import qualname_of

    mod = repo.module(AGG)
    roots = [(mod, m) for m in cls.body if isinstance(m, FuncNode)] + [(mod, f) for f in mod.tree.body if isinstance(f, FuncNode)]
    pkg = AGG.rsplit("/", 1)[0] + "/"
    clo = repo.call_graph_closure(roots, stop=lambda m, n: not m.rel.startswith(pkg))
    for m, f, _path in sorted(clo.values(), key=lambda t: (t[0].rel, getattr(t[1], "lineno", 0))):
        if not m.rel.startswith(pkg):
            continue
        cells = process_state_cells(repo, m)
        imported = {alias: (nm, origin) for alias, nm, origin in _imported_names(repo, m)}
        qn = qualname_of(f)
        bad: List[Tuple[ast.AST, str, Tuple[ast.AST, str]]] = []
        if cells or imported:
            local = _local_names(f)
            classes = _static_classes(m)
            for n in walk_no_nested(f):
                if _write_only_use(n):
                    continue
                if isinstance(n, ast.Name) and ("name", n.id) in cells and n.id not in local:
                    bad.append((n, n.id, cells[("name", n.id)]))
                elif isinstance(n, ast.Name) and n.id in imported and n.id not in local and ("name", imported[n.id][0]) in process_state_cells(repo, imported[n.id][1]):
                    bad.append((n, n.id, process_state_cells(repo, imported[n.id][1])[("name", imported[n.id][0])]))
                elif isinstance(n, ast.Attribute) and isinstance(n.value, ast.Name):
                    owner = _class_of_receiver(n.value.id, f, classes, local)
                    if owner is not None and ("attr", owner, n.attr) in cells:
                        bad.append((n, f"{owner}.{n.attr}", cells[("attr", owner, n.attr)]))
        if not bad:
            R.ok(rule, m.rel, qn, f"{qn}: no process-lifetime state read", "", getattr(f, "lineno", 0))
            continue
        done: Set[str] = set()
        for n, label, (site, writer) in bad:
            if label in done:
                continue
            done.add(label)
            R.violation(rule, m.rel, qn, norm(stmt_of(n))[:110], f"`{label}` is process-lifetime mutable state (written by `{norm(site)[:70]}` in {writer}) and is read on the aggregation path: what this or another aggregator ingested or finalised earlier decides the result, so the verdict is not a function of the set of records ingested", getattr(n, "lineno", 0))


# ---------------------------------------------------------------------------------------------------------
# D3b: the verdict object hands out what finalize_* computed
# ---------------------------------------------------------------------------------------------------------

INTERCEPTORS = {"__getattribute__", "__getattr__", "__setattr__", "__delattr__", "__new__", "__get__", "__set__"}


def check_verdict_record(R: Report, rule: str, repo: Repo, cls_name: str, observed: Set[str]) -> None:
    """The class of the verdict objects is a plain record: constructing it keeps every argument as given and reading a
    field gives the stored value (no __post_init__ / __init__ / __setattr__ / property that rewrites a field)."""
    home = None
    for rel in (MODELS, AGG):
        mod = repo.module(rel)
        c = next((n for n in mod.tree.body if isinstance(n, ast.ClassDef) and n.name == cls_name), None)
        if c is not None:
            home = (rel, mod, c)
            break
    if home is None:
        raise AnalysisError(f"class {cls_name} of the verdict objects not found in {MODELS} / {AGG}")
    rel, mod, c = home
    chain = [c]
    for b in c.bases:
        bn = dotted_name(b)
        if bn in ("object", None):
            continue
        base = next((n for n in mod.tree.body if isinstance(n, ast.ClassDef) and n.name == bn), None)
        if base is None:
            raise AnalysisError(f"{cls_name}: base class {bn} not found in {rel}")
        chain.append(base)
    fields = {st.target.id for k in chain for st in k.body if isinstance(st, ast.AnnAssign) and isinstance(st.target, ast.Name)}
    if not observed <= fields:
        raise AnalysisError(f"{cls_name}: observed fields {sorted(observed - fields)} are not declared fields")
    is_dc = any((dotted_name(d) or dotted_name(getattr(d, "func", None)) or "").split(".")[-1] == "dataclass" for d in c.decorator_list)
    n_bad = 0
    for k in chain:
        for item in k.body:
            if isinstance(item, FuncNode):
                q = f"{k.name}.{item.name}"
                if item.name in INTERCEPTORS:
                    R.violation(rule, rel, q, f"def {item.name}(...)", f"`{q}` intercepts attribute access / construction of the verdict object: the fields a caller reads are no longer the values finalize_* computed", item.lineno)
                    n_bad += 1
                    continue
                decos = {(dotted_name(d) or "").split(".")[-1] for d in item.decorator_list}
                if item.name in fields and decos & {"property", "cached_property", "setter", "getter"}:
                    R.violation(rule, rel, q, f"@property {item.name}", f"the verdict field `{item.name}` is computed by a property instead of holding the value finalize_* passed", item.lineno)
                    n_bad += 1
                    continue
                if not item.args.args or decos & {"staticmethod"}:
                    continue
                me = item.args.args[0].arg
                params = {a.arg for a in item.args.args[1:] + item.args.kwonlyargs}
                aliases = _state_aliases(item, {me})
                for st, obj in _store_sites(item):
                    if _root_name(obj) not in aliases:
                        continue
                    stmt = st if isinstance(st, ast.stmt) else stmt_of(st)
                    # a hand-written __init__ that stores each parameter under its own name keeps the arguments as given
                    if item.name == "__init__" and isinstance(st, (ast.Assign, ast.AnnAssign)) and isinstance(obj, ast.Attribute) and isinstance(obj.value, ast.Name) and obj.value.id == me and isinstance(st.value, ast.Name) and st.value.id == obj.attr and obj.attr in params:
                        continue
                    fld = obj.attr if isinstance(obj, ast.Attribute) and isinstance(obj.value, ast.Name) and obj.value.id == me else (ast.unparse(obj.value) if isinstance(obj, (ast.Attribute, ast.Subscript)) else ast.unparse(obj))
                    implicit = " when the object is constructed" if item.name in ("__post_init__", "__init__") else ""
                    R.violation(rule, rel, q, norm(stmt), f"`{q}` rewrites `{fld}` of the verdict object{implicit}: the verdict a caller reads (and the launch roll-up, which counts `finalize_run(..).status`) is no longer the one finalize_* decided from the merged state - e.g. a run with both lifecycle edges is no longer reported as documented", getattr(stmt, "lineno", 0))
                    n_bad += 1
                for call in calls_in(item):
                    if dotted_name(call.func) in ("object.__setattr__", "setattr", "super().__setattr__") and call.args and _root_name(call.args[0]) in aliases:
                        R.violation(rule, rel, q, norm(stmt_of(call)), f"`{q}` rewrites a field of the verdict object through setattr", call.lineno)
                        n_bad += 1
            elif isinstance(item, (ast.Assign, ast.AugAssign)):
                tgts = item.targets if isinstance(item, ast.Assign) else [item.target]
                for t in tgts:
                    if isinstance(t, ast.Name) and t.id in fields:
                        R.violation(rule, rel, k.name, norm(item), f"the verdict field `{t.id}` is rebound in the class body (descriptor / class attribute) instead of being a plain field", item.lineno)
                        n_bad += 1
            elif isinstance(item, ast.AnnAssign) and isinstance(item.target, ast.Name) and item.target.id in observed and item.value is not None:
                v = item.value
                plain = isinstance(v, ast.Constant) or (isinstance(v, ast.Call) and call_name(v) in ("field", "dataclasses.field") and kwarg(v, "init") is None)
                if not plain:
                    R.violation(rule, rel, k.name, norm(item), f"the verdict field `{item.target.id}` is not a plain constructor-initialised field", item.lineno)
                    n_bad += 1
    # the class object is not patched after its definition
    for m2 in {MODELS: repo.module(MODELS), AGG: repo.module(AGG)}.values():
        for top in m2.tree.body:
            if isinstance(top, (FuncNode, ast.ClassDef)):
                continue
            for st, obj in _store_sites(top):
                if _root_name(obj) == cls_name:
                    stmt = st if isinstance(st, ast.stmt) else stmt_of(st)
                    R.violation(rule, m2.rel, "<module>", norm(stmt), f"`{cls_name}` is patched after its definition: field access of the verdict objects is no longer plain", getattr(stmt, "lineno", 0))
                    n_bad += 1
            for call in [x for x in ast.walk(top) if isinstance(x, ast.Call)]:
                if call_name(call) == "setattr" and call.args and dotted_name(call.args[0]) == cls_name:
                    R.violation(rule, m2.rel, "<module>", norm(stmt_of(call)), f"`{cls_name}` is patched after its definition", call.lineno)
                    n_bad += 1
    if not is_dc and not any(isinstance(i, FuncNode) and i.name == "__init__" for i in c.body):
        raise AnalysisError(f"{cls_name}: neither a dataclass nor a class with __init__")
    if not n_bad:
        R.ok(rule, rel, cls_name, f"{cls_name} is a plain record", "fields hold the constructor arguments", c.lineno)


def check_verdict_not_rewritten(R: Report, rule: str, fn: ast.FunctionDef, qual: str, verdict_classes: Set[str], fresh_methods: Set[str]) -> None:
    """A finaliser does not modify a verdict object after it has been built (by a constructor or by finalize_*)."""
    def makes_verdict(e: Optional[ast.AST]) -> bool:
        if e is None:
            return False
        for x in ast.walk(e):
            if isinstance(x, ast.Call):
                if (call_name(x) or "").split(".")[-1] in verdict_classes:
                    return True
                if isinstance(x.func, ast.Attribute) and isinstance(x.func.value, ast.Name) and x.func.value.id == "self" and x.func.attr in fresh_methods and x.func.attr.startswith("finalize"):
                    return True
        return False

    holders: Set[str] = set()
    changed = True
    while changed:
        changed = False
        for n in ast.walk(fn):
            pairs: List[Tuple[ast.AST, Optional[ast.AST]]] = []
            if isinstance(n, ast.Assign):
                pairs = [(t, n.value) for t in n.targets]
            elif isinstance(n, ast.AnnAssign):
                pairs = [(n.target, n.value)]
            elif isinstance(n, (ast.For, ast.comprehension)):
                pairs = [(n.target, n.iter)]
            elif isinstance(n, ast.NamedExpr):
                pairs = [(n.target, n.value)]
            for tgt, val in pairs:
                if makes_verdict(val) or (val is not None and any(isinstance(x, ast.Name) and x.id in holders for x in ast.walk(val)) and not isinstance(val, (ast.Attribute, ast.Compare))):
                    for x in ast.walk(tgt):
                        if isinstance(x, ast.Name) and isinstance(x.ctx, ast.Store) and x.id not in holders:
                            holders.add(x.id)
                            changed = True
    n_bad = 0
    for st, obj in _store_sites(fn):
        if _root_name(obj) not in holders or not isinstance(obj, (ast.Attribute, ast.Subscript)):
            continue
        # `holder.status = ..`, `holder.summary[k] = ..`, `holder.problems.append(..)` go through a field of the held
        # object; `results.append(v)` / `results[i] = v` only build the local list of verdicts
        through_field = not isinstance(obj.value, ast.Name) or (isinstance(obj, ast.Attribute) and (not isinstance(st, ast.Call) or call_name(st) in ("setattr", "delattr")))
        if through_field:
            stmt = st if isinstance(st, ast.stmt) else stmt_of(st)
            R.violation(rule, AGG, qual, norm(stmt), f"`{norm(stmt, 70)}` modifies a verdict object after it was computed: what the caller reads is not what the verdict rules decided from the merged state", getattr(stmt, "lineno", 0))
            n_bad += 1
    if not n_bad:
        R.ok(rule, AGG, qual, f"{fn.name}: verdict objects returned as built", "", fn.lineno)


# ---------------------------------------------------------------------------------------------------------
# methods of the aggregate classes (accessors such as a get-or-create `RunAggregate.node(node_id)`): on the ingest
# side they are part of the merge (inlined into the handler's normal form, so that every D1 rule sees their stores);
# on the finalisation side a call that reaches a store into aggregator state is a write of the finaliser (D2)
# ---------------------------------------------------------------------------------------------------------

_CONTAINER_METHOD_NAMES = set(dir(dict)) | set(dir(set)) | set(dir(list)) | set(dir(tuple)) | set(dir(str))


def model_methods(repo: Repo) -> Dict[str, List[Tuple[object, ast.ClassDef, ast.AST]]]:
    """name -> (module, class, def) of the methods of every class of the aggregation package except the aggregator
    itself.  The receiver of `X.m(..)` is not typed, so the method is found by its name among these classes (names of
    the builtin containers' methods never count: `self._runs.get(..)` is the dict's `get`)."""
    cache = repo.__dict__.setdefault("_c13_model_methods", None)
    if cache is not None:
        return cache
    pkg = AGG.rsplit("/", 1)[0] + "/"
    out: Dict[str, List[Tuple[object, ast.ClassDef, ast.AST]]] = {}
    for rel in sorted(repo.modules):
        if not rel.startswith(pkg):
            continue
        mod = repo.modules[rel]
        for c in mod.tree.body:
            if not isinstance(c, ast.ClassDef) or (rel == AGG and c.name == CLS):
                continue
            for m in c.body:
                if isinstance(m, FuncNode) and not m.name.startswith("__") and m.name not in _CONTAINER_METHOD_NAMES:
                    decos = {(dotted_name(d) or "").split(".")[-1] for d in m.decorator_list}
                    if decos & {"staticmethod", "classmethod", "property", "cached_property", "setter"} or not m.args.args:
                        continue
                    out.setdefault(m.name, []).append((mod, c, m))
    repo.__dict__["_c13_model_methods"] = out
    return out


def _split_chained_stores(fn: ast.AST) -> None:
    """``a = c[k] = V`` (targets are bound left to right to the one value) becomes ``a = V; c[k] = a``."""
    from ..normal import _blocks

    for block in list(_blocks(fn)):
        i = 0
        while i < len(block):
            st = block[i]
            if isinstance(st, ast.Assign) and len(st.targets) > 1 and isinstance(st.targets[0], ast.Name) and all(isinstance(t, (ast.Subscript, ast.Attribute)) for t in st.targets[1:]):
                first = ast.copy_location(ast.Assign(targets=[st.targets[0]], value=st.value), st)
                rest = [ast.copy_location(ast.Assign(targets=[t], value=ast.copy_location(ast.Name(id=st.targets[0].id, ctx=ast.Load()), st)), st) for t in st.targets[1:]]
                block[i:i + 1] = [first] + rest
                i += 1 + len(rest)
            else:
                i += 1
    ast.fix_missing_locations(fn)


def inline_model_methods(repo: Repo, mod, fn: ast.AST, owner: Optional[ast.AST], keep: Tuple[str, ...] = ()) -> List[str]:
    """Inline, in place, the calls `X.m(..)` of *fn* whose callee is the one method called `m` of the aggregate classes
    (receiver a plain dotted name other than the aggregator itself), and the calls `f(..)` of a module-level function
    that lives in another module of the aggregation package (an accessor kept next to the classes and imported).  The
    statements keep the line of the call (they are reported as part of *fn*).  Returns the qualified names of what was
    inlined and consults the defining files."""
    from ..normal import _Inliner
    from ..engine import _attach_parents

    table = model_methods(repo)
    pkg = AGG.rsplit("/", 1)[0] + "/"
    done: List[str] = []
    home: Dict[int, Tuple[str, str]] = {}

    def eligible(h: ast.AST, call: ast.Call, limit: int) -> bool:
        if not isinstance(h, ast.FunctionDef) or h.args.vararg or h.args.kwarg:
            return False
        if any(isinstance(a, ast.Starred) for a in call.args) or any(k.arg is None for k in call.keywords):
            return False
        n_stmts = 0
        for x in ast.walk(h):
            if isinstance(x, (ast.Yield, ast.YieldFrom, ast.Await, ast.Global, ast.Nonlocal, ast.ClassDef)) or (isinstance(x, FuncNode) and x is not h):
                return False
            if isinstance(x, ast.Call) and (dotted_name(x.func) or "").split(".")[-1] == h.name:
                return False
            if isinstance(x, ast.stmt):
                n_stmts += 1
        return n_stmts <= limit

    class _ModelInliner(_Inliner):
        def helper_of(self, call: ast.Call):
            f = call.func
            if isinstance(f, ast.Name):
                if f.id in self.keep:
                    return None
                try:
                    targets = repo.resolve_call(self.mod, call)
                except Exception:
                    return None
                if len(targets) != 1:
                    return None
                hm, h = targets[0]
                if hm is self.mod or not hm.rel.startswith(pkg) or not isinstance(parent(h), ast.Module) or getattr(h, "decorator_list", None):
                    return None
                if getattr(h, "name", None) != f.id and not isinstance(h, ast.FunctionDef):
                    return None
                if not eligible(h, call, self.max_stmts):
                    return None
                home[id(h)] = (hm.rel, h.name)
                return h, None
            if not isinstance(f, ast.Attribute) or dotted_name(f.value) is None:
                return None
            if isinstance(f.value, ast.Name) and f.value.id in ("self", "cls"):
                return None
            cands = table.get(f.attr, [])
            if len(cands) != 1 or f.attr in self.keep:
                return None
            m_, c_, h = cands[0]
            if not eligible(h, call, self.max_stmts):
                return None
            home[id(h)] = (m_.rel, f"{c_.name}.{h.name}")
            return h, f.value

        def expand(self, h, recv, call, context, caller_names):
            out = super().expand(h, recv, call, context, caller_names)
            if out is not None:
                rel, label = home[id(h)]
                repo.consulted.add(rel)
                done.append(label)
                for s in out:
                    for x in ast.walk(s):
                        if hasattr(x, "lineno"):
                            x.lineno = getattr(context, "lineno", x.lineno)
                            x.end_lineno = getattr(context, "end_lineno", x.lineno)
            return out

    keep_parent = getattr(fn, "_parent", None)
    _ModelInliner(repo, mod, fn, keep).run(fn)
    if done:
        _split_chained_stores(fn)
        _attach_parents(fn)
        fn._parent = keep_parent if keep_parent is not None else owner  # type: ignore[attr-defined]
    return done


def call_effects(repo: Repo, mod, fn: ast.AST, state: Set[str], seen: set, depth: int = 0, fresh_methods: Set[str] = frozenset(), skip_defs: Set[int] = frozenset()) -> List[Tuple[ast.Call, str, str, ast.AST, int]]:
    """Calls of *fn* (a normal form) through which state reachable from the names in *state* is written in a way that
    is not an idempotent min/max merge: (call, file of the store, qualified name of the function holding it, the
    storing statement, its line).  The callee is resolved by the engine (functions, methods of the aggregator) or, for
    a method called on a state object, by name among the aggregate classes; its parameters bound to state are the
    roots there, and calls it makes are followed the same way."""
    from ..engine import qualname_of
    from ..normal import normalize

    out: List[Tuple[ast.Call, str, str, ast.AST, int]] = []
    if depth > 4:
        return out
    pkg = AGG.rsplit("/", 1)[0] + "/"
    table = model_methods(repo)
    for c in [x for x in walk_no_nested(fn) if isinstance(x, ast.Call)]:
        f = c.func
        targets: List[Tuple[object, ast.AST, Optional[ast.AST]]] = []  # (module, def, receiver bound to the first parameter)
        if isinstance(f, ast.Attribute) and f.attr in STORE_METHODS and f.attr not in table:
            continue  # a container's own mutator: a store site of fn itself
        try:
            resolved = [(m, t) for m, t in repo.resolve_call(mod, c) if isinstance(t, FuncNode) and m.rel.startswith(pkg)]
        except Exception:
            resolved = []
        for m, t in resolved:
            is_meth = _is_method(t) and isinstance(f, ast.Attribute)
            targets.append((m, t, f.value if is_meth else None))
        if not resolved and isinstance(f, ast.Attribute) and _root_name(f.value) in state and not (isinstance(f.value, ast.Name) and f.value.id == "self"):
            for m, _cls, t in table.get(f.attr, []):
                targets.append((m, t, f.value))
        for m, t, recv in targets:
            if getattr(t, "name", "") == "__init__":
                continue  # a constructor builds a new object
            if id(t) in skip_defs:
                continue  # a finaliser called by a finaliser: decided on its own
            pos = list(t.args.posonlyargs + t.args.args)
            roots: Set[str] = set()
            if recv is not None and pos:
                if _root_name(recv) in state:
                    roots.add(pos[0].arg)
                pos = pos[1:]
            elif _is_method(t) and pos:
                pos = pos[1:]
            for p, a in zip(pos, c.args):
                if _root_name(a) in state and not isinstance(a, ast.Constant):
                    roots.add(p.arg)
            names = {p.arg for p in pos} | {p.arg for p in t.args.kwonlyargs}
            for k in c.keywords:
                if k.arg in names and _root_name(k.value) in state:
                    roots.add(k.arg)
            if not roots:
                continue
            key = (id(t), tuple(sorted(roots)))
            if key in seen:
                continue
            seen.add(key)
            repo.consulted.add(m.rel)
            body = normalize(repo, m, t)
            aliases = _state_aliases(body, roots, fresh_methods if "self" in roots and m.rel == AGG else frozenset())
            for st, obj in _store_sites(body):
                if _root_name(obj) not in aliases:
                    continue
                stmt = st if isinstance(st, ast.stmt) else stmt_of(st)
                kind = "store"
                if isinstance(st, (ast.Assign, ast.AugAssign, ast.AnnAssign)) and isinstance(obj, ast.Attribute):
                    kind, _detail = classify_store(body, st, obj, "___", lambda _c: set(), {})
                if kind != "minmax":
                    out.append((c, m.rel, qualname_of(t), stmt, getattr(stmt, "lineno", 0)))
            for _c2, rel2, q2, stmt2, line2 in call_effects(repo, m, body, aliases, seen, depth + 1, fresh_methods, skip_defs):
                out.append((c, rel2, q2, stmt2, line2))
    return out


def check_calls_leave_state(R: Report, rule: str, repo: Repo, mod, fn: ast.AST, qual: str, fresh_methods: Set[str], skip_defs: Set[int] = frozenset()) -> None:
    """No call made while finalising reaches a store into aggregator state other than an idempotent min/max merge."""
    state = _state_aliases(fn, {"self"}, fresh_methods)
    effects = call_effects(repo, mod, fn, state, set(), 0, fresh_methods, skip_defs)
    bad_calls: Set[int] = set()
    reported: Set[Tuple[str, str]] = set()
    for c, rel, q, stmt, line in effects:
        bad_calls.add(id(c))
        host = stmt_of(c)
        key = (norm(host), norm(stmt))
        if key in reported:
            continue
        reported.add(key)
        R.violation(rule, AGG, qual, norm(host), f"`{norm(c, 60)}` is evaluated while finalising and runs `{norm(stmt, 80)}` ({rel}:{line}, in {q}): the call writes into aggregator state - what looks like a read inserts / changes an entry (e.g. a get-or-create accessor creates an empty aggregate for a key that never had a record), so the next finalisation sees other observed nodes / fields than this one did: finalising twice does not give the same verdict, and the verdict no longer depends on the ingested records alone", getattr(host, "lineno", 0))
    for c in [x for x in walk_no_nested(fn) if isinstance(x, ast.Call)]:
        if id(c) in bad_calls:
            continue
        f = c.func
        own = isinstance(f, ast.Attribute) and isinstance(f.value, ast.Name) and f.value.id == "self" and any(isinstance(t, FuncNode) for _m, t in repo.resolve_call(mod, c))
        model = isinstance(f, ast.Attribute) and f.attr in model_methods(repo) and _root_name(f.value) in state and not (isinstance(f.value, ast.Name) and f.value.id == "self")
        if own or model:
            R.ok(rule, AGG, qual, norm(c, 80), "leaves aggregator state unchanged (up to idempotent min/max fall-backs)", getattr(c, "lineno", 0))


# ---------------------------------------------------------------------------------------------------------
# roles: which function ends up merging which record type (found from the public entry point `ingest`)
# ---------------------------------------------------------------------------------------------------------

WANTED = ("run_space_start", "run_space_end", "pipeline_start", "pipeline_end", "ser")
# record types that are unique per key by the producer's lifecycle (C06-D1 / C09-D2)
LIFECYCLE = {"run_space_start", "run_space_end", "pipeline_start", "pipeline_end"}
TYPE_FIELD = "record_type"


class _Unk:
    def __repr__(self) -> str:
        return "<unknown>"


_UNK = _Unk()


class _Ref:
    """A reference to something callable (bound method, function name, lambda, nested def)."""
    def __init__(self, node: ast.AST) -> None:
        self.node = node


class _Table:
    def __init__(self, node: ast.Dict) -> None:
        self.node = node

    def entry(self, key) -> Optional[ast.AST]:
        for k, v in zip(self.node.keys, self.node.values):
            if k is None or not isinstance(k, ast.Constant):
                raise AnalysisError(f"dispatch table with a computed key: {norm(self.node, 80)}")
            if type(k.value) is type(key) and k.value == key:
                return v
        return None


def _is_type_read(e: ast.AST, rec: str) -> bool:
    """``rec.get("record_type"[, default])`` / ``rec["record_type"]``."""
    if isinstance(e, ast.Subscript) and isinstance(e.value, ast.Name) and e.value.id == rec:
        return isinstance(e.slice, ast.Constant) and e.slice.value == TYPE_FIELD
    if isinstance(e, ast.Call) and isinstance(e.func, ast.Attribute) and e.func.attr == "get" and isinstance(e.func.value, ast.Name) and e.func.value.id == rec:
        return bool(e.args) and isinstance(e.args[0], ast.Constant) and e.args[0].value == TYPE_FIELD
    return False


def _passes(call: ast.Call, name: str) -> bool:
    return any(isinstance(a, ast.Name) and a.id == name for a in list(call.args) + [k.value for k in call.keywords])


def _is_method(fn: ast.AST) -> bool:
    return isinstance(parent(fn), ast.ClassDef) and not any(dotted_name(d) == "staticmethod" for d in fn.decorator_list)


def bind_call(callee: ast.AST, call: ast.Call) -> Optional[Dict[str, ast.AST]]:
    """parameter name -> argument expression of *call* (receiver included for methods); None when not understood."""
    a = callee.args
    if a.vararg or a.kwarg or any(isinstance(x, ast.Starred) for x in call.args) or any(k.arg is None for k in call.keywords):
        return None
    pos = list(a.posonlyargs + a.args)
    out: Dict[str, ast.AST] = {}
    if _is_method(callee):
        if not pos or not isinstance(call.func, ast.Attribute):
            return None
        out[pos[0].arg] = call.func.value
        pos = pos[1:]
    if len(call.args) > len(pos):
        return None
    for p, v in zip(pos, call.args):
        out[p.arg] = v
    names = {p.arg for p in pos} | {p.arg for p in a.kwonlyargs}
    for k in call.keywords:
        if k.arg not in names or k.arg in out:
            return None
        out[k.arg] = k.value
    allpos = a.posonlyargs + a.args
    defaults = dict(zip([p.arg for p in allpos][len(allpos) - len(a.defaults):], a.defaults))
    defaults.update({p.arg: d for p, d in zip(a.kwonlyargs, a.kw_defaults) if d is not None})
    for p in pos + list(a.kwonlyargs):
        if p.arg not in out:
            if p.arg not in defaults:
                return None
            out[p.arg] = defaults[p.arg]
    return out


def _record_callees(repo: Repo, mod, fn: ast.AST, rec: str, pkg: str):
    """(call, module, callee, callee's record parameter) for every call of *fn* - closures included - that hands the
    record on to a function of the aggregation package."""
    out = []
    for c in ast.walk(fn):
        if not (isinstance(c, ast.Call) and _passes(c, rec)):
            continue
        targets = [(m, t) for m, t in repo.resolve_call(mod, c) if isinstance(t, FuncNode) and m.rel.startswith(pkg)]
        if len(targets) != 1:
            continue
        m2, callee = targets[0]
        b = bind_call(callee, c)
        if b is None:
            raise AnalysisError(f"call `{norm(c, 80)}` hands the record to {callee.name}, but its arguments cannot be bound to the parameters")
        rps = [p for p, v in b.items() if isinstance(v, ast.Name) and v.id == rec]
        if len(rps) != 1:
            raise AnalysisError(f"call `{norm(c, 80)}`: the record is bound to {len(rps)} parameters of {callee.name}")
        out.append((c, m2, callee, rps[0]))
    return out


def find_handlers(repo: Repo, mod, fn: ast.AST, rec: str, pkg: str, out: Dict[int, Tuple[object, ast.AST]], seen: Set[int], depth: int = 0) -> None:
    """Functions that receive the record from the dispatcher *fn*.  A private callee that itself looks at the record
    type is a part of the dispatcher (the normal form inlines it) and is searched in turn."""
    if depth > 4:
        raise AnalysisError("dispatch of records is nested too deep")
    for _c, m2, callee, rp in _record_callees(repo, mod, fn, rec, pkg):
        if id(callee) in seen:
            continue
        seen.add(id(callee))
        # a part of the dispatcher knows the record's type: it reads it from the record or is told it by the caller
        b = bind_call(callee, _c) or {}
        told = any(_is_type_read(v, rec) or (isinstance(v, ast.Name) and any(_is_type_read(a, rec) for a in assigned_value(fn, v.id))) for v in b.values())
        sub = (told or any(_is_type_read(x, rp) for x in ast.walk(callee))) and callee.name.startswith("_") and not callee.name.startswith("__") and m2 is mod
        if sub:
            find_handlers(repo, m2, callee, rp, pkg, out, seen, depth + 1)
        else:
            out[id(callee)] = (m2, callee)
    # functions named without being called (values of a lookup table, `h = self._ingest_ser`): candidates that the
    # dispatcher may call with the record later; which of them is called for which type is decided on the normal form
    for x in ast.walk(fn):
        if not isinstance(x, (ast.Attribute, ast.Name)) or not isinstance(x.ctx, ast.Load):
            continue
        par = parent(x)
        if (isinstance(par, ast.Call) and par.func is x) or isinstance(par, ast.Attribute):
            continue
        if isinstance(x, ast.Attribute) and not (isinstance(x.value, ast.Name) and x.value.id == "self"):
            continue
        probe = ast.Call(func=x, args=[], keywords=[])
        probe._parent = par  # type: ignore[attr-defined]
        for m2, t in repo.resolve_call(mod, probe):
            if isinstance(t, FuncNode) and m2.rel.startswith(pkg) and id(t) not in seen and len(t.args.posonlyargs + t.args.args) >= (2 if _is_method(t) else 1):
                seen.add(id(t))
                out[id(t)] = (m2, t)


class Dispatch:
    """Result of reading the dispatcher: per record type the statement that hands the record over, the function that
    receives it and the call that binds its parameters."""
    def __init__(self) -> None:
        self.fn: Optional[ast.FunctionDef] = None  # normal form of the dispatcher, handlers kept as calls
        self.rec = ""
        self.by_type: Dict[str, List[Tuple[ast.stmt, object, ast.AST, ast.Call]]] = {}
        self.uncovered: Dict[str, List[str]] = {}
        self.handlers: Dict[int, Tuple[object, ast.AST]] = {}


def read_dispatch(repo: Repo, cls: ast.ClassDef, entry: str = "ingest") -> Dispatch:
    from ..cfg import CFG, reaching_defs
    from ..normal import normalize

    mod = repo.module(AGG)
    pkg = AGG.rsplit("/", 1)[0] + "/"
    ing = repo.func(AGG, f"{CLS}.{entry}")
    if len(ing.args.args) < 2 or ing.args.args[0].arg != "self":
        raise AnalysisError(f"{CLS}.{entry}: (self, record) parameters not found")
    rec = ing.args.args[1].arg
    D = Dispatch()
    D.rec = rec
    find_handlers(repo, mod, ing, rec, pkg, D.handlers, {id(ing)})
    if not D.handlers:
        raise AnalysisError(f"{CLS}.{entry}: no function of the aggregation package receives the record")
    keep = tuple(sorted({h.name for _m, h in D.handlers.values()}))
    dfn = normalize(repo, mod, ing, keep=keep, copyprop="all")
    D.fn = dfn
    g = CFG(dfn)
    nested_defs = {n.name: n for n in ast.walk(dfn) if isinstance(n, FuncNode) and n is not dfn}

    def handler_call(ref: ast.AST, call: ast.Call) -> Optional[Tuple[object, ast.AST, ast.Call]]:
        """(module, handler, binding call) when calling *ref* through *call* hands the record to a handler."""
        if isinstance(ref, (ast.Attribute, ast.Name)) and not (isinstance(ref, ast.Name) and ref.id in nested_defs):
            probe = ast.Call(func=ref, args=call.args, keywords=call.keywords)
            probe._parent = parent(call)  # type: ignore[attr-defined]
            for m2, t in repo.resolve_call(mod, probe):
                if id(t) in D.handlers and _passes(call, rec):
                    ast.copy_location(probe, call)
                    return m2, t, probe
            return None
        closure = nested_defs.get(ref.id) if isinstance(ref, ast.Name) else ref if isinstance(ref, ast.Lambda) else None
        if closure is None:
            return None
        # the closure either captures the record or takes it as a parameter
        cparams = [a.arg for a in closure.args.posonlyargs + closure.args.args]
        inner_rec = rec
        if cparams:
            given = {p: v for p, v in zip(cparams, call.args)}
            hit = [p for p, v in given.items() if isinstance(v, ast.Name) and v.id == rec]
            if len(hit) != 1:
                return None
            inner_rec = hit[0]
        found = []
        for c in ast.walk(closure):
            if isinstance(c, ast.Call) and _passes(c, inner_rec):
                for m2, t in repo.resolve_call(mod, c):
                    if id(t) in D.handlers:
                        found.append((m2, t, c))
        if len(found) != 1:
            return None
        if inner_rec != rec:
            m2, t, c = found[0]
            c2 = ast.Call(func=c.func, args=[ast.Name(id=rec, ctx=ast.Load()) if isinstance(a, ast.Name) and a.id == inner_rec else a for a in c.args], keywords=[ast.keyword(arg=k.arg, value=ast.Name(id=rec, ctx=ast.Load()) if isinstance(k.value, ast.Name) and k.value.id == inner_rec else k.value) for k in c.keywords])
            ast.copy_location(c2, c)
            c2._parent = parent(c)  # type: ignore[attr-defined]
            return m2, t, c2
        return found[0]

    def value(e: ast.AST, nid: int, T: str, depth: int = 0):
        """Value of *e* at CFG node *nid* when the record's type is T (constants, tables and callables only)."""
        if depth > 8:
            return _UNK
        if isinstance(e, ast.Constant):
            return e.value
        if _is_type_read(e, rec):
            return T
        if isinstance(e, ast.NamedExpr):
            return value(e.value, nid, T, depth + 1)
        if isinstance(e, ast.Name):
            if e.id == rec:
                return _Table(ast.Dict(keys=[ast.Constant(value=TYPE_FIELD)], values=[ast.Constant(value=T)]))  # a non-empty mapping
            defs = reaching_defs(g, e.id, nid)
            if not defs:
                if e.id in nested_defs or repo.resolve_name(mod, e, dfn) is not None:
                    return _Ref(e)
                return _UNK
            vals = []
            for d in defs:
                a = d.ast
                if not (isinstance(a, (ast.Assign, ast.AnnAssign)) and a.value is not None):
                    return _UNK
                tg = a.targets[0] if isinstance(a, ast.Assign) else a.target
                if not isinstance(tg, ast.Name) or (isinstance(a, ast.Assign) and len(a.targets) != 1):
                    return _UNK
                vals.append(value(a.value, d.id, T, depth + 1))
            if len(vals) == 1:
                return vals[0]
            if all(not isinstance(v, (_Unk, _Ref, _Table)) for v in vals) and all(type(v) is type(vals[0]) and v == vals[0] for v in vals):
                return vals[0]
            return _UNK
        if isinstance(e, ast.Attribute):
            if isinstance(e.value, ast.Name) and e.value.id == "self" and repo.method(mod, cls, e.attr) is not None:
                return _Ref(e)
            return _UNK
        if isinstance(e, ast.Lambda):
            return _Ref(e)
        if isinstance(e, ast.Dict):
            return _Table(e)
        if isinstance(e, ast.Subscript):
            t, k = value(e.value, nid, T, depth + 1), value(e.slice, nid, T, depth + 1)
            if isinstance(t, _Table) and not isinstance(k, (_Unk, _Ref, _Table)):
                v = t.entry(k)
                return _UNK if v is None else value(v, nid, T, depth + 1)
            return _UNK
        if isinstance(e, ast.UnaryOp) and isinstance(e.op, ast.Not):
            v = truth(value(e.operand, nid, T, depth + 1))
            return _UNK if v is None else (not v)
        if isinstance(e, ast.BoolOp):
            last = _UNK
            for sub in e.values:
                last = value(sub, nid, T, depth + 1)
                tv = truth(last)
                if tv is None:
                    return _UNK
                if tv is (not isinstance(e.op, ast.And)):
                    return last  # short circuit: `or` on a true operand, `and` on a false one
            return last
        if isinstance(e, ast.IfExp):
            tv = truth(value(e.test, nid, T, depth + 1))
            return _UNK if tv is None else value(e.body if tv else e.orelse, nid, T, depth + 1)
        if isinstance(e, ast.Compare) and len(e.ops) == 1:
            l, r = value(e.left, nid, T, depth + 1), value(e.comparators[0], nid, T, depth + 1)
            op = e.ops[0]
            if isinstance(op, (ast.In, ast.NotIn)):
                if isinstance(l, (_Unk, _Ref, _Table)):
                    return _UNK
                if isinstance(r, _Table):
                    found = r.entry(l) is not None
                elif isinstance(e.comparators[0], (ast.Tuple, ast.List, ast.Set)) and all(isinstance(x, ast.Constant) for x in e.comparators[0].elts):
                    found = any(type(x.value) is type(l) and x.value == l for x in e.comparators[0].elts)
                else:
                    return _UNK
                return found if isinstance(op, ast.In) else not found
            if isinstance(l, _Unk) or isinstance(r, _Unk):
                return _UNK
            if isinstance(l, (_Ref, _Table)) or isinstance(r, (_Ref, _Table)):
                # a callable / table is not None and not equal to a constant
                if isinstance(l, (_Ref, _Table)) and isinstance(r, (_Ref, _Table)):
                    return _UNK
                return True if isinstance(op, (ast.IsNot, ast.NotEq)) else False if isinstance(op, (ast.Is, ast.Eq)) else _UNK
            if isinstance(op, (ast.Eq, ast.Is)):
                return type(l) is type(r) and l == r
            if isinstance(op, (ast.NotEq, ast.IsNot)):
                return not (type(l) is type(r) and l == r)
            return _UNK
        if isinstance(e, ast.Call):
            fn_name = call_name(e)
            if fn_name == "isinstance" and len(e.args) == 2:
                v = value(e.args[0], nid, T, depth + 1)
                if isinstance(v, str) and dotted_name(e.args[1]) == "str":
                    return True
                if isinstance(e.args[0], ast.Name) and e.args[0].id == rec and (dotted_name(e.args[1]) or "").split(".")[-1] in ("dict", "Mapping", "MutableMapping"):
                    return True  # the hypothesis is a record (a mapping) of type T
                return _UNK
            if fn_name in ("bool", "callable") and len(e.args) == 1:
                v = value(e.args[0], nid, T, depth + 1)
                if fn_name == "callable":
                    return True if isinstance(v, _Ref) else _UNK
                tv = truth(v)
                return _UNK if tv is None else tv
            if fn_name == "getattr" and len(e.args) in (2, 3) and isinstance(e.args[0], ast.Name) and e.args[0].id == "self":
                v = value(e.args[1], nid, T, depth + 1)
                if isinstance(v, str) and repo.method(mod, cls, v) is not None:
                    return _Ref(ast.copy_location(ast.Attribute(value=e.args[0], attr=v, ctx=ast.Load()), e))
                return _UNK
            if isinstance(e.func, ast.Attribute) and e.func.attr == "get" and len(e.args) in (1, 2) and not e.keywords:
                t, k = value(e.func.value, nid, T, depth + 1), value(e.args[0], nid, T, depth + 1)
                if isinstance(t, _Table) and not isinstance(k, (_Unk, _Ref, _Table)):
                    v = t.entry(k)
                    if v is not None:
                        return value(v, nid, T, depth + 1)
                    return value(e.args[1], nid, T, depth + 1) if len(e.args) == 2 else None
            return _UNK
        return _UNK

    def truth(v) -> Optional[bool]:
        if isinstance(v, _Unk):
            return None
        if isinstance(v, _Ref):
            return True
        if isinstance(v, _Table):
            return bool(v.node.keys)
        return bool(v)

    calls = [(c, stmt_of(c)) for c in calls_in(dfn)]
    for T in WANTED:
        blocked: Set[Tuple[int, str]] = set()
        for n in g.nodes:
            if n.kind in ("if", "while") and n.part is not None:
                tv = truth(value(n.part, n.id, T))
                if tv is True:
                    blocked.add((n.id, "F"))
                elif tv is False:
                    blocked.add((n.id, "T"))
        seen = g.reach([g.entry], blocked_edges=blocked, skip_labels={"EXC", "BASE"})
        sites: List[Tuple[ast.stmt, object, ast.AST, ast.Call]] = []
        site_nodes: Set[int] = set()
        for c, st in calls:
            nids = [x for x in g.nodes_for(st) if x in seen]
            if not nids:
                continue
            ref = value(c.func, nids[0], T)
            if not isinstance(ref, _Ref):
                continue
            hit = handler_call(ref.node, c)
            if hit is None:
                continue
            sites.append((st, hit[0], hit[1], hit[2]))
            site_nodes.update(nids)
        D.by_type[T] = sites
        bad = g.must_pass([g.entry], [g.ret_exit], lambda nd: nd.id in site_nodes, blocked_edges=blocked, skip_labels={"EXC", "BASE"})
        if bad or not sites:
            D.uncovered[T] = bad[0][1] if bad else []
    return D


class _Rename(ast.NodeTransformer):
    def __init__(self, mapping: Dict[str, ast.AST]) -> None:
        self.mapping = mapping

    def visit_Name(self, node: ast.Name):
        if node.id in self.mapping:
            if not isinstance(node.ctx, ast.Load):
                raise AnalysisError(f"parameter `{node.id}` of an ingest function is rebound in its body")
            from ..normal import clone
            return ast.copy_location(clone(self.mapping[node.id]), node)
        return node


def instantiate(repo: Repo, cls: ast.ClassDef, hmod, handler: ast.AST, call: ast.Call, rec_at_site: str) -> Tuple[ast.FunctionDef, str]:
    """The handler as the dispatcher calls it: a function of ``(self, <record>)`` in which every other parameter is
    replaced by the argument expression of the call (``runs`` -> ``self._runs``), so that the state a module-level
    function receives explicitly is analysed as what it is - a part of the aggregator."""
    from ..normal import clone

    b = bind_call(handler, call)
    if b is None:
        raise AnalysisError(f"{handler.name}: arguments of `{norm(call, 80)}` cannot be bound")
    rp = [p for p, v in b.items() if isinstance(v, ast.Name) and v.id == rec_at_site]
    if len(rp) != 1:
        raise AnalysisError(f"{handler.name}: record parameter not found")
    rec = rp[0]
    new = clone(handler)
    mapping: Dict[str, ast.AST] = {}
    for p, v in b.items():
        if p == rec:
            continue
        free = {x.id for x in ast.walk(v) if isinstance(x, ast.Name)}
        if not free <= {"self"} or any(isinstance(x, (ast.Call, ast.Lambda)) for x in ast.walk(v)):
            raise AnalysisError(f"{handler.name}: argument `{norm(v, 60)}` for parameter `{p}` is not aggregator state or a constant")
        if isinstance(v, ast.Name) and v.id == p:
            continue
        mapping[p] = v
    new.body = [_Rename(mapping).visit(st) for st in new.body] if mapping else new.body
    new.args = ast.arguments(posonlyargs=[], args=[ast.arg(arg="self"), ast.arg(arg=rec)], kwonlyargs=[], kw_defaults=[], defaults=[], vararg=None, kwarg=None)
    new.decorator_list = []
    ast.fix_missing_locations(new)
    from ..engine import _attach_parents
    _attach_parents(new)
    new._parent = cls  # type: ignore[attr-defined]
    return new, rec


# ---------------------------------------------------------------------------------------------------------
# D4: what the producer must agree on with the aggregator (interface conditions)
# ---------------------------------------------------------------------------------------------------------

RS_EDGES = ("run_space_start", "run_space_end")


def record_fields_read(exprs: List[ast.AST], rec: str) -> Set[str]:
    """Constant field names read from the record (``rec.get("k")`` / ``rec["k"]``) anywhere in *exprs*."""
    out: Set[str] = set()
    for e in exprs:
        for x in ast.walk(e):
            if isinstance(x, ast.Subscript) and isinstance(x.value, ast.Name) and x.value.id == rec and isinstance(x.slice, ast.Constant) and isinstance(x.slice.value, str):
                out.add(x.slice.value)
            elif isinstance(x, ast.Call) and isinstance(x.func, ast.Attribute) and x.func.attr == "get" and isinstance(x.func.value, ast.Name) and x.func.value.id == rec and x.args and isinstance(x.args[0], ast.Constant) and isinstance(x.args[0].value, str):
                out.add(x.args[0].value)
    return out


def _record_sites(repo: Repo, skip_pkg: str) -> List[Tuple[str, str, object, str, ast.AST, ast.AST, Dict[str, List[ast.AST]]]]:
    """One pass over the package (cached per tree): every dict literal / ``dict(..)`` call (kind "dict") and every other
    call (kind "ctor") that carries a constant ``record_type``: (kind, type, module, qualname, function, node, items)."""
    cache = repo.__dict__.setdefault("_c13_record_sites", {})
    if skip_pkg in cache:
        return cache[skip_pkg]
    out = []
    for mod, qn, fn in repo.all_functions():
        if mod.rel.startswith(skip_pkg):
            continue
        for n in walk_no_nested(fn):
            items: Optional[Dict[str, List[ast.AST]]] = None
            kind = "dict"
            if isinstance(n, ast.Dict):
                items = {k.value: [v] for k, v in zip(n.keys, n.values) if isinstance(k, ast.Constant) and isinstance(k.value, str)}
            elif isinstance(n, ast.Call) and call_name(n) == "dict" and not n.args:
                items = {k.arg: [k.value] for k in n.keywords if k.arg}
            elif isinstance(n, ast.Call) and n.keywords:
                items = {k.arg: [k.value] for k in n.keywords if k.arg}
                kind = "ctor"
            tv = (items or {}).get(TYPE_FIELD)
            if not (tv and isinstance(tv[0], ast.Constant) and isinstance(tv[0].value, str)):
                continue
            if kind == "dict":
                par = parent(n)
                holder = None
                if isinstance(par, ast.Assign) and len(par.targets) == 1 and isinstance(par.targets[0], ast.Name):
                    holder = par.targets[0].id
                elif isinstance(par, ast.AnnAssign) and isinstance(par.target, ast.Name):
                    holder = par.target.id
                if holder is not None:
                    for st in walk_no_nested(fn):
                        if isinstance(st, ast.Assign):
                            for t in st.targets:
                                if isinstance(t, ast.Subscript) and isinstance(t.value, ast.Name) and t.value.id == holder and isinstance(t.slice, ast.Constant) and isinstance(t.slice.value, str):
                                    items.setdefault(t.slice.value, []).append(st.value)
                    # `for K, V in (("field", value), ..): holder[K] = V` (the pairs may sit in a local / a dict's items())
                    for lp in walk_no_nested(fn):
                        if not (isinstance(lp, ast.For) and isinstance(lp.target, ast.Tuple) and len(lp.target.elts) == 2 and all(isinstance(x, ast.Name) for x in lp.target.elts)):
                            continue
                        kn, vn = lp.target.elts[0].id, lp.target.elts[1].id
                        stores = [st for b in lp.body for st in ast.walk(b) if isinstance(st, ast.Assign) and isinstance(st.value, ast.Name) and st.value.id == vn and any(isinstance(t, ast.Subscript) and isinstance(t.value, ast.Name) and t.value.id == holder and isinstance(t.slice, ast.Name) and t.slice.id == kn for t in st.targets)]
                        if not stores:
                            continue
                        src = lp.iter
                        if isinstance(src, ast.Name):
                            vals_ = assigned_value(fn, src.id)
                            src = vals_[0] if len(vals_) == 1 else None
                        pairs: List[Tuple[ast.AST, ast.AST]] = []
                        if isinstance(src, (ast.Tuple, ast.List)):
                            pairs = [(x.elts[0], x.elts[1]) for x in src.elts if isinstance(x, (ast.Tuple, ast.List)) and len(x.elts) == 2]
                        elif isinstance(src, ast.Call) and call_attr(src) == "items" and isinstance(src.func, ast.Attribute) and isinstance(src.func.value, ast.Dict) and not src.args:
                            pairs = [(k_, v_) for k_, v_ in zip(src.func.value.keys, src.func.value.values) if k_ is not None]
                        for k_, v_ in pairs:
                            if isinstance(k_, ast.Constant) and isinstance(k_.value, str):
                                items.setdefault(k_.value, []).append(v_)
            out.append((kind, tv[0].value, mod, qn, fn, n, items))
    cache[skip_pkg] = out
    return out


def record_builders(repo: Repo, T: str, skip_pkg: str) -> List[Tuple[object, str, ast.AST, ast.AST, Dict[str, List[ast.AST]]]]:
    """Functions of the package (outside the aggregation package) that build a record of type *T*: a dict literal /
    ``dict(..)`` call whose ``record_type`` is the constant T.  Gives (module, qualname, function, literal, field ->
    value expressions) with later ``<holder>[field] = value`` stores added."""
    return [(mod, qn, fn, n, items) for kind, t, mod, qn, fn, n, items in _record_sites(repo, skip_pkg) if kind == "dict" and t == T]


def _calls_named(repo: Repo, name: str) -> List[Tuple[object, str, ast.AST, ast.Call]]:
    """(module, qualname, function, call) of every call in the package whose callee is spelled *name* (cached per tree)."""
    idx = repo.__dict__.get("_c13_calls_by_name")
    if idx is None:
        idx = repo.__dict__["_c13_calls_by_name"] = {}
        for cm, cqn, cfn in repo.all_functions():
            for c in calls_in(cfn):
                nm = c.func.attr if isinstance(c.func, ast.Attribute) else c.func.id if isinstance(c.func, ast.Name) else None
                if nm is not None:
                    idx.setdefault(nm, []).append((cm, cqn, cfn, c))
    return idx.get(name, [])


def _own_params(fn: ast.AST) -> List[str]:
    a = fn.args
    return [p.arg for p in a.posonlyargs + a.args + a.kwonlyargs]


def _rebound(fn: ast.AST, name: str) -> bool:
    return any(isinstance(x, ast.Name) and x.id == name and isinstance(x.ctx, (ast.Store, ast.Del)) for x in walk_no_nested(fn))


class _Terminal:
    """Where the value of a record field stops being a parameter handed down: expression *expr* in function *fn*
    (at *call*, the call that starts the hand-down; None when the expression sits in the record builder itself)."""
    def __init__(self, mod, qn: str, fn: ast.AST, call: Optional[ast.Call], expr: ast.AST, default_of: Optional[str], chain: Tuple[str, ...]) -> None:
        self.mod, self.qn, self.fn, self.call, self.expr, self.default_of, self.chain = mod, qn, fn, call, expr, default_of, chain


class _Rewrite:
    """A step of a hand-down chain where the value handed on is computed from the parameter that was received instead
    of being that parameter: *expr* (in *fn*) is what is handed on, *sig* its text with the parameter abstracted."""
    def __init__(self, mod, qn: str, fn: ast.AST, param: str, expr: ast.AST, sig: str, line: int) -> None:
        self.mod, self.qn, self.fn, self.param, self.expr, self.sig, self.line = mod, qn, fn, param, expr, sig, line


def _received_value(fn: ast.AST, e: ast.AST) -> Optional[Tuple[str, List[ast.AST]]]:
    """*e* (an expression of *fn*) stands for a value that is computed from the entry value of exactly one parameter
    of *fn* and from nothing else the function binds: (parameter, the expressions that are not the parameter itself).
    Decided on the CFG with reaching definitions (the parameter may have been rebound: ``p = f(p)``; the value may
    sit in a local).  None when the value has another origin (state, several parameters, a loop variable ...)."""
    from ..cfg import reaching_defs

    try:
        st = e if isinstance(e, ast.stmt) else stmt_of(e)
    except Exception:
        return None
    g = _cfg_of(fn)
    at = g.nodes_for(st)
    if not at:
        return None
    params = _own_params(fn)
    me = None
    if _is_method(fn) and params:
        me, params = params[0], params[1:]
    deps: Set[str] = set()
    rewrites: List[ast.AST] = []
    budget = [60]

    def value_of_def(d) -> Optional[ast.AST]:
        a = d.ast
        if isinstance(a, ast.Assign) and len(a.targets) == 1 and isinstance(a.targets[0], ast.Name):
            return a.value
        if isinstance(a, ast.AnnAssign) and isinstance(a.target, ast.Name):
            return a.value
        return None

    def names_ok(x: ast.AST, nodes: List[int]) -> bool:
        """Every name read in *x* is the entry value of a parameter, a name the function never binds, or a local
        whose definitions are themselves such expressions."""
        for nm in [y for y in ast.walk(x) if isinstance(y, ast.Name) and isinstance(y.ctx, ast.Load)]:
            par = parent(nm)
            if isinstance(par, ast.Subscript) and par.value is nm:
                return False  # a container the value is taken out of, not the value
            if isinstance(par, ast.Attribute) and par.value is nm and not (isinstance(parent(par), ast.Call) and parent(par).func is par) and nm.id != me:
                return False  # a field of an object: another origin
            budget[0] -= 1
            if budget[0] < 0:
                return False
            defs = {d.id: d for n in nodes for d in reaching_defs(g, nm.id, n)}
            if not defs:
                if nm.id in params:
                    deps.add(nm.id)
                continue
            for d in defs.values():
                v = value_of_def(d)
                if v is None or not names_ok(v, [d.id]):
                    return False
        return True

    def top(x: ast.AST, nodes: List[int], depth: int = 0) -> bool:
        if depth > 6:
            return False
        if isinstance(x, ast.IfExp):
            return names_ok(x.test, nodes) and top(x.body, nodes, depth + 1) and top(x.orelse, nodes, depth + 1)
        if isinstance(x, ast.NamedExpr):
            return top(x.value, nodes, depth + 1)
        if isinstance(x, ast.Name):
            defs = {d.id: d for n in nodes for d in reaching_defs(g, x.id, n)}
            if not defs:
                if x.id in params:
                    deps.add(x.id)
                    return True
                return False  # a module-level name: not a value that was received
            for d in defs.values():
                v = value_of_def(d)
                if v is None or not top(v, [d.id], depth + 1):
                    return False
            return True
        if any(isinstance(y, (ast.Lambda, ast.ListComp, ast.SetComp, ast.DictComp, ast.GeneratorExp, ast.Await, ast.Yield, ast.YieldFrom)) for y in ast.walk(x)):
            return False
        if not names_ok(x, nodes):
            return False
        rewrites.append(x)
        return True

    if not top(e, at) or len(deps) != 1:
        return None
    return next(iter(deps)), rewrites


def _rewrite_sig(x: ast.AST, param: str) -> str:
    import copy
    y = copy.deepcopy(x)
    for n in ast.walk(y):
        if isinstance(n, ast.Name) and n.id == param:
            n.id = "<received>"
    return ast.unparse(y)


def field_terminals(repo: Repo, mod, qn: str, fn: ast.AST, e: ast.AST, call: Optional[ast.Call], chain: Tuple[str, ...], seen: Set[Tuple[int, str]], depth: int = 0, rewrites: Optional[List[_Rewrite]] = None) -> List[_Terminal]:
    """Follow a record field upwards through the functions that only hand it down (the value is one of their own
    parameters): every caller's argument for that parameter - the parameter's default when the caller omits it.
    A function that hands on a value computed from the one parameter it received (``p = f(p)``) is followed through
    that parameter as well; the step is noted in *rewrites*."""
    pname: Optional[str] = None
    if isinstance(e, ast.Name) and e.id in _own_params(fn) and not _rebound(fn, e.id):
        pname = e.id
    elif depth < 6 and not isinstance(e, ast.Constant):
        rv = _received_value(fn, e)
        if rv is not None:
            pname = rv[0]
            if rewrites is not None:
                for x in rv[1]:
                    rewrites.append(_Rewrite(mod, qn, fn, pname, x, _rewrite_sig(x, pname), getattr(x, "lineno", 0)))
    if pname is not None and depth < 6:
        if (id(fn), pname) in seen:
            return []
        seen.add((id(fn), pname))
        a = fn.args
        default_nodes = [d for d in list(a.defaults) + list(a.kw_defaults) if d is not None]
        out: List[_Terminal] = []
        for cm, cqn, cfn, c in _calls_named(repo, fn.name):
            if cfn is fn:
                continue
            if _is_method(fn) != isinstance(c.func, ast.Attribute):
                continue
            b = bind_call(fn, c)
            if b is None or pname not in b:
                continue
            arg = b[pname]
            if any(arg is d for d in default_nodes):
                out.append(_Terminal(cm, cqn, cfn, c, arg, f"{qn}({pname}={ast.unparse(arg)})", chain + (qn,)))
            else:
                out += field_terminals(repo, cm, cqn, cfn, arg, c, chain + (qn,), seen, depth + 1, rewrites)
        return out
    return [_Terminal(mod, qn, fn, call, e, None, chain)]


def _value_origins(fn: ast.AST, g, e: ast.AST, at: List[int], through: Optional[List[int]] = None, depth: int = 0) -> Set[str]:
    """Dumps of the expressions the value of *e* comes from at CFG nodes *at* (locals resolved through their reaching
    definitions; with *through*, only definitions that lie on a path through one of those nodes).  ``?..`` marks a
    definition that is not a plain assignment."""
    from ..cfg import reaching_defs

    if isinstance(e, ast.IfExp):
        return _value_origins(fn, g, e.body, at, through, depth + 1) | _value_origins(fn, g, e.orelse, at, through, depth + 1)
    if isinstance(e, ast.NamedExpr):
        return _value_origins(fn, g, e.value, at, through, depth + 1)
    if not isinstance(e, ast.Name) or depth > 5:
        return {_d(e)}
    defs = {d.id: d for n in at for d in reaching_defs(g, e.id, n)}
    if through is not None and defs:
        after = set(g.reach([t for s_ in through for t, _l in g.succ[s_]]))
        before = {d.id for s_ in through for d in reaching_defs(g, e.id, s_)}
        defs = {i: d for i, d in defs.items() if i in after or i in before}
    if not defs:
        return {_d(e)}  # a parameter / module-level name
    out: Set[str] = set()
    for d in defs.values():
        a = d.ast
        val = None
        if isinstance(a, ast.Assign) and len(a.targets) == 1 and isinstance(a.targets[0], ast.Name):
            val = a.value
        elif isinstance(a, ast.AnnAssign) and isinstance(a.target, ast.Name):
            val = a.value
        if val is None:
            out.add("?" + norm(a, 60))
        else:
            out |= _value_origins(fn, g, val, [d.id], None, depth + 1)
    return out


def check_launch_key_agreement(R: Report, rule: str, repo: Repo, key_fields: Dict[str, Set[str]]) -> None:
    """The aggregator merges run_space_start and run_space_end into the aggregate stored under the key it reads from
    the record.  Both edges of one launch meet in one aggregate only when the producer writes the same values into the
    key fields of both records: followed from the record builders up to the function that emits both edges."""
    from ..cfg import CFG

    ks, ke = key_fields.get(RS_EDGES[0], set()), key_fields.get(RS_EDGES[1], set())
    if not ks or not ke:
        raise AnalysisError(f"launch key fields read by the run_space_start / run_space_end merges not found ({sorted(ks)} / {sorted(ke)})")
    R.check(ks == ke, rule, AGG, f"{CLS}.ingest", "run_space_start and run_space_end are merged under the same key fields", f"the launch aggregate is looked up by {sorted(ks)} for run_space_start but by {sorted(ke)} for run_space_end: the two edges of a launch do not meet in one aggregate", 0, what_ok=f"key fields {sorted(ks)}")
    pkg = AGG.rsplit("/", 1)[0] + "/"
    terms: Dict[str, Dict[str, List[_Terminal]]] = {T: {} for T in RS_EDGES}
    builders_seen = 0
    for T in RS_EDGES:
        for mod, qn, fn, lit, items in record_builders(repo, T, pkg):
            builders_seen += 1
            repo.consulted.add(mod.rel)
            for k in sorted(ks | ke):
                vals = items.get(k)
                if not vals:
                    R.violation(rule, mod.rel, qn, norm(lit, 90), f"the {T} record is built without the field `{k}` the aggregator reads as part of the launch key: the record is dropped (or merged under another key) and the launch never shows this lifecycle edge", getattr(lit, "lineno", 0))
                    continue
                for v in vals:
                    terms[T].setdefault(k, []).extend(field_terminals(repo, mod, qn, fn, v, None, (), set()))
    if builders_seen < 2:
        raise AnalysisError("no function that builds run_space_start / run_space_end records found (dict with a constant record_type)")
    cfgs: Dict[int, object] = {}
    compared = 0
    for k in sorted(ks | ke):
        starts, ends = terms[RS_EDGES[0]].get(k, []), terms[RS_EDGES[1]].get(k, [])
        for te in ends:
            repo.consulted.add(te.mod.rel)
            mates = [ts for ts in starts if ts.fn is te.fn]
            site = te.call if te.call is not None else te.expr
            line = getattr(site, "lineno", 0)
            stmt_txt = norm(stmt_of(site) if not isinstance(site, ast.stmt) else site, 110)
            if not mates:
                if isinstance(te.expr, ast.Constant):
                    R.violation(rule, te.mod.rel, te.qn, stmt_txt, f"`{k}` of every run_space_end record is the constant {ast.unparse(te.expr)}{' (default ' + te.default_of + ')' if te.default_of else ''}, while run_space_start carries the launch's own value: the end edge of a launch whose `{k}` differs is merged into another launch aggregate - the finished launch stays `partial / missing_run_space_end` and a phantom launch with only an end edge appears", line)
                    compared += 1
                continue
            g = cfgs.get(id(te.fn))
            if g is None:
                g = cfgs[id(te.fn)] = CFG(te.fn)
            for ts in mates:
                compared += 1
                if ts.call is None or te.call is None:
                    same = _d(ts.expr) == _d(te.expr)
                    so, eo = {_d(ts.expr)}, {_d(te.expr)}
                else:
                    s_nodes = g.nodes_for(stmt_of(ts.call))
                    e_nodes = g.nodes_for(stmt_of(te.call))
                    if not s_nodes or not e_nodes:
                        raise AnalysisError(f"{te.qn}: no CFG node for the calls that emit the run-space edges")
                    so = {_d(ts.expr)} if ts.default_of else _value_origins(te.fn, g, ts.expr, s_nodes)
                    eo = {_d(te.expr)} if te.default_of else _value_origins(te.fn, g, te.expr, e_nodes, through=s_nodes)
                    unknown = sorted(x for x in so | eo if x.startswith("?"))
                    if unknown and so != eo:
                        raise AnalysisError(f"{te.qn}: the value of `{k}` handed to the run-space edges is bound in a way that is not understood: {unknown[0][1:]}")
                    same = so == eo
                why = ""
                if not same:
                    src = f"falls back to the default `{te.default_of}` because the call leaves it out" if te.default_of else f"comes from `{ast.unparse(te.expr)}`"
                    ssrc = f"the default `{ts.default_of}`" if ts.default_of else f"`{ast.unparse(ts.expr)}`"
                    why = f"`{k}` of the run_space_end record {src}, while the run_space_start record of the same launch gets {ssrc}: the aggregator keys the launch by {sorted(ks)}, so for a launch where the two differ (e.g. a retry with attempt 2) the end edge is merged into another aggregate - the complete launch is judged `partial / missing_run_space_end` and a phantom launch with only an end edge appears"
                R.check(same, rule, te.mod.rel, te.qn, f"{k}: {stmt_txt}", why, line, what_ok="same origin as in the start record")
    if not compared:
        raise AnalysisError("no function that emits both run_space_start and run_space_end was found: the key agreement of the two edges cannot be decided")


def check_launch_key_as_received(R: Report, rule: str, repo: Repo, ks: Set[str], joined: List[str]) -> None:
    """The aggregator joins the records of the types *joined* on the launch key fields *ks* by equality.  The producer
    hands the key to the builders of these records along separate paths (the public trace-driver interface), so a
    function on one path that writes / hands on a value computed from the key it received - instead of the key - makes
    its records disagree with the records of the other types, unless every other type's path applies the same
    computation.  Decided per builder and key field over the hand-down chain (reaching definitions)."""
    pkg = AGG.rsplit("/", 1)[0] + "/"
    per: Dict[str, Dict[str, List[Tuple[object, str, ast.AST, ast.AST, List[_Rewrite]]]]] = {}
    for T in joined:
        for mod, qn, fn, lit, items in record_builders(repo, T, pkg):
            for k in sorted(ks):
                vals = items.get(k)
                if not vals:
                    continue
                rw: List[_Rewrite] = []
                for v in vals:
                    field_terminals(repo, mod, qn, fn, v, None, (), set(), 0, rw)
                per.setdefault(k, {}).setdefault(T, []).append((mod, qn, fn, lit, rw))
    for k in sorted(per):
        sigs = {T: {r.sig for _m, _q, _f, _l, rw in lst for r in rw} for T, lst in per[k].items()}
        for T, lst in sorted(per[k].items()):
            others = [T2 for T2 in sorted(per[k]) if T2 != T]
            for mod, qn, fn, lit, rw in lst:
                repo.consulted.add(mod.rel)
                bad = [(r, T2) for r in rw for T2 in others if r.sig not in sigs[T2]]
                if not others:
                    continue
                if bad:
                    r, T2 = bad[0]
                    repo.consulted.add(r.mod.rel)
                    R.violation(rule, r.mod.rel, r.qn, norm(stmt_of(r.expr), 110), f"`{k}` of the {T} record is `{ast.unparse(r.expr)}`, computed from the `{r.param}` this function received, while the {T2} records of the same launch carry the value as it was handed to their builder: the aggregator joins {', '.join(sorted(per[k]))} on {sorted(ks)} by equality, so for a launch whose `{k}` the computation changes the records fall into different launch aggregates - one launch with the lifecycle edges and no runs, one with the runs and no edges (`invalid`, both edges reported missing): the roll-up is not the count of the launch's runs", r.line)
                else:
                    R.ok(rule, mod.rel, qn, f"{T}.{k}: {norm(lit, 70)}", "written as received" if not rw else "same computation as in the other record types", getattr(lit, "lineno", 0))


def _self_attr(e: ast.AST, me: str) -> Optional[str]:
    return e.attr if isinstance(e, ast.Attribute) and isinstance(e.value, ast.Name) and e.value.id == me else None


def check_one_handle_per_file(R: Report, rule: str, repo: Repo) -> None:
    """A prefix of a trace file is a prefix of what the runtime emitted only if the lines reach the file in emission
    order.  Writers that keep several open handles (run records / run-space lifecycle records) must not have two of
    them on the same path: each handle has its own buffer, so lines written through the second one land after
    whatever the first one flushed earlier.  Decided per class that builds trace records: every ``open`` whose result
    (in a writing mode) is kept in an attribute of the instance, and whether its path can be the configured path itself
    (not a file name derived from it)."""
    from ..cfg import CFG, reaching_defs

    pkg = AGG.rsplit("/", 1)[0] + "/"
    classes: Dict[int, Tuple[object, ast.ClassDef]] = {}
    for T in WANTED:
        for mod, _qn, fn, _lit, _items in record_builders(repo, T, pkg):
            c = parent(fn)
            if isinstance(c, ast.ClassDef):
                classes[id(c)] = (mod, c)
    if not classes:
        raise AnalysisError("no class that builds trace records (dict with a constant record_type) found")
    for mod, c in classes.values():
        repo.consulted.add(mod.rel)
        methods = [m for m in c.body if isinstance(m, FuncNode) and m.args.args]
        sites = []  # (method, stmt, attr, open call, path operand)
        for m in methods:
            me = m.args.args[0].arg
            for st in walk_no_nested(m):
                if not isinstance(st, (ast.Assign, ast.AnnAssign)) or st.value is None:
                    continue
                tg = st.targets if isinstance(st, ast.Assign) else [st.target]
                attrs = [a for a in (_self_attr(t, me) for t in tg) if a is not None]
                if not attrs:
                    continue
                for oc in [x for x in ast.walk(st.value) if isinstance(x, ast.Call)]:
                    if isinstance(oc.func, ast.Attribute) and oc.func.attr == "open" and not (isinstance(oc.func.value, ast.Name) and oc.func.value.id in ("io", "os", "codecs", "gzip", "bz2", "lzma")):
                        operand = oc.func.value
                    elif (call_name(oc) or "").split(".")[-1] == "open" and oc.args:
                        operand = oc.args[0]
                    else:
                        continue
                    # a handle that is written through: the mode (2nd positional of open(), 1st of Path.open()) is not read-only
                    is_method_open = isinstance(oc.func, ast.Attribute) and operand is oc.func.value
                    pos_mode = (oc.args[0] if oc.args else None) if is_method_open else (oc.args[1] if len(oc.args) > 1 else None)
                    mode = kwarg(oc, "mode") or pos_mode
                    if mode is None or (isinstance(mode, ast.Constant) and isinstance(mode.value, str) and not set(mode.value) & set("awx+")):
                        continue
                    sites.append((m, st, attrs[0], oc, operand))
        bare_sites: Dict[str, List[Tuple[ast.AST, ast.AST, str]]] = {}
        for m, st, attr, oc, operand in sites:
            me = m.args.args[0].arg
            g = CFG(m)
            nodes = g.nodes_for(st)
            if not nodes:
                raise AnalysisError(f"{c.name}.{m.name}: no CFG node for {norm(st)}")
            bare: Set[str] = set()

            def walk(e: ast.AST, at: List[int], depth: int = 0) -> None:
                """Self attributes the opened path may be *itself* (not a path derived by joining / renaming)."""
                if depth > 6:
                    return
                a_ = _self_attr(e, me)
                if a_ is not None:
                    bare.add(a_)
                    return
                if isinstance(e, ast.IfExp):
                    walk(e.body, at, depth + 1)
                    walk(e.orelse, at, depth + 1)
                elif isinstance(e, ast.BoolOp):
                    for v in e.values:
                        walk(v, at, depth + 1)
                elif isinstance(e, ast.Call) and (call_name(e) or "").split(".")[-1] in ("Path", "str", "fspath", "PurePath") and len(e.args) == 1 and not e.keywords:
                    walk(e.args[0], at, depth + 1)
                elif isinstance(e, ast.Call) and isinstance(e.func, ast.Attribute) and e.func.attr in ("resolve", "absolute", "expanduser") and not e.args:
                    walk(e.func.value, at, depth + 1)
                elif isinstance(e, ast.Name):
                    for d in {d.id: d for n in at for d in reaching_defs(g, e.id, n)}.values():
                        a2 = d.ast
                        if isinstance(a2, ast.Assign) and len(a2.targets) == 1 and isinstance(a2.targets[0], ast.Name):
                            walk(a2.value, [d.id], depth + 1)
                        elif isinstance(a2, ast.AnnAssign) and isinstance(a2.target, ast.Name) and a2.value is not None:
                            walk(a2.value, [d.id], depth + 1)

            walk(operand, nodes)
            for b in sorted(bare):
                bare_sites.setdefault(b, []).append((m, st, attr))
        # decide after all sites are known
        for m, st, attr, oc, operand in sites:
            clash = []
            for b, lst in bare_sites.items():
                if any(s_ is st for _m, s_, _a in lst):
                    clash += [(b, m2, a2) for m2, s2, a2 in lst if s2 is not st and a2 != attr]
            what = ""
            if clash:
                b, m2, a2 = clash[0]
                what = f"`self.{attr}` is opened on `self.{b}` itself, and so is `self.{a2}` (in {c.name}.{m2.name}): when the configured path names one file, the same trace file is appended to through two handles with separate buffers, so the lines do not reach the file in the order the records were emitted - run_space_start can land after the whole first run. A crash prefix of that file then has a pipeline_start with a launch key but no run_space_start, and finalize_launch answers `invalid` instead of the documented `partial` with the missing edge named"
            R.check(not clash, rule, mod.rel, f"{c.name}.{m.name}", norm(st, 110), what, getattr(st, "lineno", 0), what_ok="no other handle on the same path")



_REC = "<record>"


def record_read_paths(e: Optional[ast.AST], rec: str, local_value, attr_paths: Dict[str, Set[Tuple[str, ...]]], depth: int = 0) -> Set[Tuple[str, ...]]:
    """Paths of constant keys under which *e* reads a value out of a record *as it is* (no conversion on the way):
    ``rec.get("timestamp") or (rec.get("timing") or {}).get("started_at")`` ->
    {("<record>", "timestamp"), ("<record>", "timing", "started_at")}.  *local_value(name)*: the expressions a local
    stands for; *attr_paths*: aggregate fields known to hold such a value, with the record type in place of the
    marker (``node.timing`` holds ("ser", "timing"))."""
    if e is None or depth > 8:
        return set()
    if isinstance(e, ast.Name):
        if e.id == rec:
            return {(_REC,)}
        out: Set[Tuple[str, ...]] = set()
        for v in local_value(e.id):
            out |= record_read_paths(v, rec, local_value, attr_paths, depth + 1)
        return out
    if isinstance(e, ast.BoolOp):
        return {p for v in e.values for p in record_read_paths(v, rec, local_value, attr_paths, depth + 1)}
    if isinstance(e, ast.IfExp):
        return record_read_paths(e.body, rec, local_value, attr_paths, depth + 1) | record_read_paths(e.orelse, rec, local_value, attr_paths, depth + 1)
    if isinstance(e, ast.NamedExpr):
        return record_read_paths(e.value, rec, local_value, attr_paths, depth + 1)
    if isinstance(e, ast.Call) and isinstance(e.func, ast.Attribute) and e.func.attr == "get" and 1 <= len(e.args) <= 2 and not e.keywords and isinstance(e.args[0], ast.Constant) and isinstance(e.args[0].value, str):
        return {p + (e.args[0].value,) for p in record_read_paths(e.func.value, rec, local_value, attr_paths, depth + 1)}
    if isinstance(e, ast.Subscript) and isinstance(e.slice, ast.Constant) and isinstance(e.slice.value, str):
        return {p + (e.slice.value,) for p in record_read_paths(e.value, rec, local_value, attr_paths, depth + 1)}
    if isinstance(e, ast.Attribute) and e.attr in attr_paths and not (isinstance(e.value, ast.Name) and e.value.id == "self"):
        return set(attr_paths[e.attr])
    return set()


def ordered_operands(fn: ast.AST) -> List[ast.AST]:
    """Operands of the ordering comparisons of *fn* and the arguments of two-argument min / max calls."""
    out: List[ast.AST] = []
    for n in ast.walk(fn):
        if isinstance(n, ast.Compare):
            operands = [n.left] + list(n.comparators)
            for i, op in enumerate(n.ops):
                if isinstance(op, (ast.Lt, ast.Gt, ast.LtE, ast.GtE)):
                    out += [operands[i], operands[i + 1]]
        elif isinstance(n, ast.Call) and call_name(n) in ("min", "max") and len(n.args) == 2 and not n.keywords:
            out += list(n.args)
    return out


def typed_record_builders(repo: Repo, T: str, skip_pkg: str) -> List[Tuple[object, str, ast.AST, ast.AST, Dict[str, List[ast.AST]]]]:
    """``record_builders`` plus the calls that build a record object with the keyword ``record_type=T`` (a record class)."""
    return [(mod, qn, fn, n, items) for _kind, t, mod, qn, fn, n, items in _record_sites(repo, skip_pkg) if t == T]


def value_sources(repo: Repo, mod, fn: ast.AST, e: ast.AST, seen: Set[Tuple[int, str]], depth: int = 0) -> List[Tuple[object, ast.AST, ast.AST]]:
    """Where the value of *e* (evaluated in *fn*) is computed: followed through locals (tuple unpacking included),
    through parameters to the argument of every caller, and through calls of functions of the package to what they
    return.  Gives (module, function, expression) triples; an expression that cannot be followed further is given as
    it is."""
    key = (id(fn), _d(e))
    if key in seen or depth > 10:
        return []
    seen.add(key)
    if isinstance(e, ast.IfExp):
        return value_sources(repo, mod, fn, e.body, seen, depth + 1) + value_sources(repo, mod, fn, e.orelse, seen, depth + 1)
    if isinstance(e, ast.BoolOp):
        return [s for v in e.values for s in value_sources(repo, mod, fn, v, seen, depth + 1)]
    if isinstance(e, ast.NamedExpr):
        return value_sources(repo, mod, fn, e.value, seen, depth + 1)
    if isinstance(e, ast.Name):
        out: List[Tuple[object, ast.AST, ast.AST]] = []
        bound = False
        for v in assigned_value(fn, e.id):
            bound = True
            out += value_sources(repo, mod, fn, v, seen, depth + 1)
        for n in walk_no_nested(fn):
            if not isinstance(n, ast.Assign):
                continue
            for t in n.targets:
                if isinstance(t, (ast.Tuple, ast.List)) and not any(isinstance(x, ast.Starred) for x in t.elts):
                    for i, x in enumerate(t.elts):
                        if isinstance(x, ast.Name) and x.id == e.id:
                            bound = True
                            if isinstance(n.value, (ast.Tuple, ast.List)) and len(n.value.elts) == len(t.elts):
                                out += value_sources(repo, mod, fn, n.value.elts[i], seen, depth + 1)
                            elif isinstance(n.value, ast.Call):
                                for m2, callee in repo.resolve_call(mod, n.value):
                                    if isinstance(callee, FuncNode):
                                        for rv in returned_values(callee):
                                            if isinstance(rv, ast.Tuple) and len(rv.elts) == len(t.elts):
                                                out += value_sources(repo, m2, callee, rv.elts[i], seen, depth + 1)
        if bound:
            return out
        if e.id in _own_params(fn) and not _rebound(fn, e.id):
            a = fn.args
            default_nodes = [d for d in list(a.defaults) + list(a.kw_defaults) if d is not None]
            for cm, _cqn, cfn, c in _calls_named(repo, fn.name):
                if cfn is fn or _is_method(fn) != isinstance(c.func, ast.Attribute):
                    continue
                b = bind_call(fn, c)
                if b is None or e.id not in b:
                    continue
                if any(b[e.id] is d for d in default_nodes):
                    out.append((mod, fn, b[e.id]))
                else:
                    out += value_sources(repo, cm, cfn, b[e.id], seen, depth + 1)
            return out or [(mod, fn, e)]
        return [(mod, fn, e)]
    if isinstance(e, ast.Call):
        targets = [(m2, t) for m2, t in repo.resolve_call(mod, e) if isinstance(t, FuncNode)]
        if targets:
            out = []
            for m2, callee in targets:
                for rv in returned_values(callee):
                    out += value_sources(repo, m2, callee, rv, seen, depth + 1)
            return out
    return [(mod, fn, e)]


_FRACTION_DIGITS = {"seconds": 0, "milliseconds": 3, "microseconds": 6}


def time_text_width(fn: ast.AST, e: ast.AST, depth: int = 0) -> Tuple[Optional[bool], str, Optional[int]]:
    """Is the text *e* a rendering of an instant whose width does not depend on the instant?  (verdict, reason when
    not, digits of the fraction of a second when known).  verdict None: not a recognised rendering of a clock reading."""
    if depth > 8:
        return None, "", None
    if isinstance(e, ast.Name):
        vals = assigned_value(fn, e.id)
        return time_text_width(fn, vals[0], depth + 1) if len(vals) == 1 else (None, "", None)
    if isinstance(e, ast.Call) and isinstance(e.func, ast.Name) and e.func.id == "str" and len(e.args) == 1 and not e.keywords:
        return time_text_width(fn, e.args[0], depth + 1)
    def combine(parts: List[Tuple[Optional[bool], str, Optional[int]]]) -> Tuple[Optional[bool], str, Optional[int]]:
        """Concatenation: one piece of varying width spoils the text; the digits of the fraction add up."""
        bad = next((p for p in parts if p[0] is False), None)
        if bad:
            return bad
        if not parts or not all(p[0] is True for p in parts):
            return None, "", None
        return True, "", (sum(p[2] for p in parts) if all(p[2] is not None for p in parts) else None)

    if isinstance(e, ast.BinOp) and isinstance(e.op, ast.Add):
        flat: List[ast.AST] = []

        def pieces(x: ast.AST) -> None:
            if isinstance(x, ast.BinOp) and isinstance(x.op, ast.Add):
                pieces(x.left)
                pieces(x.right)
            else:
                flat.append(x)

        pieces(e)
        return combine([time_text_width(fn, x, depth + 1) for x in flat if not (isinstance(x, ast.Constant) and isinstance(x.value, str))])
    if isinstance(e, ast.JoinedStr):
        parts = []
        for v in e.values:
            if not isinstance(v, ast.FormattedValue):
                continue
            if v.conversion != -1:
                return None, "", None
            if v.format_spec is None:
                parts.append(time_text_width(fn, v.value, depth + 1))
                continue
            spec = "".join(c.value for c in v.format_spec.values if isinstance(c, ast.Constant) and isinstance(c.value, str)) if all(isinstance(c, ast.Constant) for c in v.format_spec.values) else None
            if spec is None:
                return None, "", None
            if "%" in spec:  # a datetime formatted with strftime directives
                parts.append((True, "", 6 if "%f" in spec else 0) if "%-" not in spec and "%#" not in spec else (None, "", None))
            elif len(spec) >= 2 and spec[0] == "0" and spec.rstrip("d")[1:].isdigit():
                parts.append((True, "", int(spec.rstrip("d")[1:])))  # a zero-padded number: the hand-made fraction
            else:
                return None, "", None
        return combine(parts)
    if isinstance(e, ast.IfExp):
        a, b = time_text_width(fn, e.body, depth + 1), time_text_width(fn, e.orelse, depth + 1)
        for p in (a, b):
            if p[0] is False:
                return p
        return (True, "", a[2] if a[2] == b[2] else None) if a[0] is True and b[0] is True else (None, "", None)
    if isinstance(e, ast.Subscript) and isinstance(e.slice, ast.Slice):
        inner = time_text_width(fn, e.value, depth + 1)
        sl = e.slice
        cut = sl.upper.operand.value if sl.lower is None and sl.step is None and isinstance(sl.upper, ast.UnaryOp) and isinstance(sl.upper.op, ast.USub) and isinstance(sl.upper.operand, ast.Constant) and isinstance(sl.upper.operand.value, int) else None
        return inner[0], inner[1], (inner[2] - cut if inner[2] is not None and cut is not None and 0 <= cut <= inner[2] else None)
    if isinstance(e, ast.Call) and isinstance(e.func, ast.Attribute):
        m = e.func.attr
        if m == "replace" and len(e.args) == 2 and all(isinstance(a, ast.Constant) and isinstance(a.value, str) for a in e.args):
            return time_text_width(fn, e.func.value, depth + 1)  # a constant piece exchanged for a constant piece
        if m == "isoformat":
            recv = e.func.value
            if isinstance(recv, ast.Name):
                vals = assigned_value(fn, recv.id)
                recv = vals[0] if len(vals) == 1 else recv
            whole_seconds = False
            for x in ast.walk(recv):
                if isinstance(x, ast.Call) and isinstance(x.func, ast.Attribute):
                    ms = kwarg(x, "microsecond")
                    if x.func.attr == "replace" and isinstance(ms, ast.Constant) and ms.value == 0:
                        whole_seconds = True
                    if x.func.attr == "date" and not x.args:
                        whole_seconds = True
            ts = kwarg(e, "timespec") or (e.args[1] if len(e.args) > 1 else None)
            if ts is None or (isinstance(ts, ast.Constant) and ts.value == "auto"):
                if whole_seconds:
                    return True, "", 0
                return False, "`isoformat()` without an explicit timespec renders no fraction of a second when microsecond == 0 and six digits otherwise: the width of the text depends on the instant", None
            if isinstance(ts, ast.Constant) and isinstance(ts.value, str):
                return True, "", _FRACTION_DIGITS.get(ts.value)
            return None, "", None
        if m == "strftime":
            fmts = [a.value for a in e.args if isinstance(a, ast.Constant) and isinstance(a.value, str)]
            if len(fmts) == 1 and "%-" not in fmts[0] and "%#" not in fmts[0]:
                return True, "", 6 if "%f" in fmts[0] else 0 if "%S" in fmts[0] else None
            return None, "", None
    return None, "", None


def check_time_text_order(R: Report, rule: str, repo: Repo, ordered: Set[Tuple[str, Tuple[str, ...]]]) -> None:
    """The aggregator orders the time stamps of the records as they come (`<` / `>` on the strings, min / max merges,
    `start > end`).  Text order is time order only for renderings of one fixed width: every value the runtime writes
    into a field the aggregator orders is followed from the record builders (constant record_type) to the expression
    that renders the clock reading, and that rendering has a width that does not depend on the instant; all of them
    render the same number of digits for the fraction of a second."""
    pkg = AGG.rsplit("/", 1)[0] + "/"
    if not ordered:
        raise AnalysisError("no record field that the aggregator orders as read from the record was found (timestamp / timing.started_at / timing.finished_at confirmed by reading)")
    judged: Dict[Tuple[str, str, str], Tuple[object, ast.AST, ast.AST, Tuple[Optional[bool], str, Optional[int]], str]] = {}
    for T in sorted({t for t, _p in ordered}):
        builders = typed_record_builders(repo, T, pkg)
        for path in sorted(p for t, p in ordered if t == T and p):
            for mod, qn, fn, lit, items in builders:
                level: List[Tuple[object, ast.AST, ast.AST]] = [(mod, fn, v) for v in items.get(path[0], [])]
                for key in path[1:]:
                    nxt: List[Tuple[object, ast.AST, ast.AST]] = []
                    for m_, f_, v in level:
                        for m2, f2, src in value_sources(repo, m_, f_, v, set()):
                            if isinstance(src, ast.Dict):
                                nxt += [(m2, f2, val) for k, val in zip(src.keys, src.values) if isinstance(k, ast.Constant) and k.value == key]
                            elif isinstance(src, ast.Call) and call_name(src) == "dict" and not src.args:
                                nxt += [(m2, f2, k.value) for k in src.keywords if k.arg == key]
                    level = nxt
                for m_, f_, v in level:
                    for m2, f2, src in value_sources(repo, m_, f_, v, set()):
                        if isinstance(src, ast.Constant):
                            continue  # a placeholder ("" before the clock is read), not a rendering
                        from ..engine import qualname_of
                        k3 = (m2.rel, qualname_of(f2), _d(src))
                        if k3 not in judged:
                            judged[k3] = (m2, f2, src, time_text_width(f2, src), f"{T}.{'.'.join(path)}")
    digits: Dict[int, Tuple[str, str, ast.AST]] = {}
    for (rel, qn, _dump), (m2, f2, src, (verdict, why, dig), field) in sorted(judged.items(), key=lambda kv: kv[0]):
        if verdict is None:
            continue
        repo.consulted.add(rel)
        st = stmt_of(src) if not isinstance(src, ast.stmt) else src
        R.check(verdict, rule, rel, qn, norm(st, 110), f"this text is written into `{field}` of the trace records, and the aggregator orders those values as strings (min / max merges of the run's start and end, `start_timestamp > end_timestamp`): {why}, so the text order is not the time order - `..T12:00:00Z` sorts after `..T12:00:00.011900Z` - and a correctly ordered, complete run whose pipeline_start falls on a whole second is reported with `start_time_gt_end_time`" if verdict is False else "", getattr(src, "lineno", 0), what_ok="fixed-width rendering")
        if verdict and dig is not None:
            digits.setdefault(dig, (rel, qn, src))
    if len(digits) > 1:
        (d0, (rel0, qn0, _s0)), (d1, (rel1, qn1, s1)) = sorted(digits.items())[:2]
        R.violation(rule, rel1, qn1, norm(stmt_of(s1), 110), f"this producer renders {d1} digits for the fraction of a second while `{qn0}` ({rel0}) renders {d0}: the aggregator orders the two kinds of stamps against each other as strings when it derives a missing lifecycle time from the SER timing (a prefix without pipeline_end), and `..00.011Z` sorts after `..00.011900Z`", getattr(s1, "lineno", 0))
    elif digits:
        (d0, (rel0, qn0, s0)), = digits.items()
        R.ok(rule, rel0, qn0, "all producers render the same fraction of a second", f"{d0} digits", getattr(s0, "lineno", 0))


def run(repo: Repo, R: Report) -> None:
    try:
        _run(repo, R)
    except AnalysisError as exc:
        if not R.violations():
            raise
        # a located violation stands; the shape that could not be read afterwards is recorded with it
        R.note(f"analysis stopped after the reported violation(s): {exc}")


def _run(repo: Repo, R: Report) -> None:
    from ..normal import nfunc
    from .. import pat

    cls = repo.cls(AGG, CLS)
    fresh_methods = fresh_result_methods(cls)
    BOOL_FIELDS.clear()
    BOOL_FIELDS.update(st.target.id for c in repo.module(MODELS).tree.body if isinstance(c, ast.ClassDef) and c.name.endswith("Aggregate") for st in c.body if isinstance(st, ast.AnnAssign) and isinstance(st.target, ast.Name) and dotted_name(st.annotation) == "bool")
    R.assume(
        "producer invariant (C06-D1/C09-D2): at most one pipeline_start / pipeline_end per run, one run_space_start / end per launch attempt, one SER per started node - the unique-per-key and last-writer stores commute under it",
        "prefixes of a real trace have seen the start record (it is the first record the runtime writes)",
    )
    R.undecided("that real traces' prefixes produce exactly these atoms (ties to the producer; decided structurally by C06)", "list order of finalize_all() (follows ingest order; not part of the per-run / per-launch verdicts)")

    r_store = R.rule("C13-D1-commutative-stores", "every store of the _ingest_* methods is a commutative merge: create-if-absent from the key only, flag, min/max, set add, counter, assign-if-present from a record type unique per key, or last-writer from a SER", 25)
    r_reg = R.rule("C13-D1-registered-aggregates", "an aggregate object that an _ingest_* method merges into is taken from a container of the aggregator or, when constructed on the spot, is stored into one on every path before the merge takes effect (otherwise the first record seen for a key is lost and the verdict depends on the ingest order)", 5)
    r_keep = R.rule("C13-D1-entries-created-never-replaced", "a store `container[key] = aggregate` in an _ingest_* method is reached only when the lookup of that key found nothing (or writes back what the lookup gave), and no ingest step removes an entry or an element: an aggregate that already received merges is never replaced by a new one, whatever its state (CFG: every path to the store passes an edge that guarantees absence)", 6)
    r_hist = R.rule("C13-D1-merges-independent-of-history", "the unconditional merges of the ingest path (dispatch of a record to its _ingest_* method, flag := True, set add, counter) are not skipped by a test that reads state left behind by earlier records (aggregator attributes, module / class level cells, mutable defaults), except an idempotence guard; no function of the aggregation package reads process-lifetime state: what a record contributes does not depend on what was ingested before it", 14)
    r_calls = R.rule("C13-D2-finalisation-calls-leave-state-unchanged", "no call evaluated while finalising (a method of an aggregate object such as a get-or-create accessor, a method of the aggregator, a function of the aggregation package that receives aggregator state) reaches a store into aggregator state other than an idempotent min/max fall-back: a read that inserts or changes an entry makes the second finalisation see other state than the first (finalising twice changes the verdict) - the callee is followed into its defining module, the parameters bound to state are the roots there", 3)
    from ..engine import qualname_of
    from ..normal import normalize
    D = read_dispatch(repo, cls)
    # decided before the ingest functions are read: a finaliser that writes through a call is a located violation even
    # when the same accessor makes an ingest function unreadable
    finalisers = [m for m in cls.body if isinstance(m, FuncNode) and ((m.name in fresh_methods and m.returns is not None and "Completeness" in ast.unparse(m.returns)) or m.name in ("finalize_run", "finalize_launch", "finalize_all"))]
    if not finalisers:
        raise AnalysisError(f"{CLS}: no method declared to return a completeness verdict")
    for m in finalisers:
        check_calls_leave_state(R, r_calls, repo, repo.module(AGG), nfunc(repo, AGG, f"{CLS}.{m.name}"), f"{CLS}.{m.name}", fresh_methods, {id(x) for x in finalisers})
    # every record type reaches a function that merges it (decided on the CFG of the dispatcher's normal form with the
    # tests on the record type evaluated for that type: if/elif chain, match, early returns, lookup table)
    ing = repo.func(AGG, f"{CLS}.ingest")
    for T in WANTED:
        R.check(T not in D.uncovered, r_store, AGG, f"{CLS}.ingest", f"dispatch covers record type {T!r}", f"a record of type {T!r} can leave ingest() without having been handed to a function that merges it: it is silently ignored", ing.lineno, path=D.uncovered.get(T) or None, what_ok="dispatched")
    types_of: Dict[int, Set[str]] = {}
    first_call: Dict[int, Tuple[object, ast.AST, ast.Call]] = {}
    for T in WANTED:
        for _st, m2, h, c in D.by_type[T]:
            types_of.setdefault(id(h), set()).add(T)
            first_call.setdefault(id(h), (m2, h, c))
    if not first_call:
        raise AnalysisError("no ingest function found behind the dispatcher")
    from .c04_rest import process_state_cells
    agg_mod = repo.module(AGG)
    cells = process_state_cells(repo, agg_mod)
    hist_seeds: Set[str] = {"self"} | {c[1] for c in cells}
    method_names = {n.name for n in cls.body if isinstance(n, FuncNode)}
    pure = _pure_methods(cls)
    config = _config_attrs(cls)
    model_classes = {c.name for c in repo.module(MODELS).tree.body if isinstance(c, ast.ClassDef)}
    launch_key_fields: Dict[str, Set[str]] = {}
    registration_fields: Dict[str, Set[str]] = {}  # record type -> fields read into the keys under which its handler registers aggregates
    held_paths: Dict[str, Set[Tuple[str, ...]]] = {}  # aggregate field -> (record type, key, ..) of the record values it holds
    ordered_fields: Set[Tuple[str, Tuple[str, ...]]] = set()
    for hid, (hmod, handler, hcall) in first_call.items():
        types = types_of[hid]
        qual = qualname_of(handler)
        inst, rec = instantiate(repo, cls, hmod, handler, hcall, D.rec)
        fn = normalize(repo, hmod, inst)
        # accessors of the aggregate classes (`run.node(node_id)`) are part of the merge: their stores are stores of the handler
        if inline_model_methods(repo, hmod, fn, cls):
            fn = normalize(repo, hmod, fn, inline=False)
            fn._parent = cls  # type: ignore[attr-defined]
        merge_sites: List[Tuple[ast.stmt, str, Optional[ast.AST]]] = []
        state = _state_aliases(fn, {"self"}, fresh_methods)
        # locals that hold (a function of) record fields
        derived: Dict[str, ast.AST] = {}
        for n in walk_no_nested(fn):
            if isinstance(n, ast.Assign) and len(n.targets) == 1 and isinstance(n.targets[0], ast.Name):
                if _is_record_read(n.value, rec) or any(isinstance(x, ast.Name) and x.id in derived for x in ast.walk(n.value)):
                    derived[n.targets[0].id] = n.value
        # fields of the record whose values are ordered as they come (for the producer agreement of D4)
        lv = lambda nm, _fn=fn: assigned_value(_fn, nm)  # noqa: E731
        for n in walk_no_nested(fn):
            if isinstance(n, (ast.Assign, ast.AnnAssign)) and n.value is not None:
                for t in (n.targets if isinstance(n, ast.Assign) else [n.target]):
                    if isinstance(t, ast.Attribute):
                        for p in record_read_paths(n.value, rec, lv, {}):
                            if p[0] == _REC and len(p) > 1:
                                for T_ in types:
                                    held_paths.setdefault(t.attr, set()).add((T_,) + p[1:])
        for o in ordered_operands(fn):
            for p in record_read_paths(o, rec, lv, held_paths):
                for T_ in (types if p[0] == _REC else {p[0]}):
                    if len(p) > 1:
                        ordered_fields.add((T_, p[1:]))
        keys_of = registration_keys(fn, state, model_classes)
        kf = record_fields_read([derived[nm] for nm in sorted(keys_of.all) if nm in derived] + list(keys_of.key_exprs), rec)
        for T_ in types:
            registration_fields.setdefault(T_, set()).update(kf)
        if types <= set(RS_EDGES):
            for T_ in types:
                launch_key_fields.setdefault(T_, set()).update(kf)
        for n in walk_no_nested(fn):
            targets: List[ast.AST] = []
            if isinstance(n, ast.Assign):
                targets = [t for t in n.targets if isinstance(t, (ast.Attribute, ast.Subscript))]
            elif isinstance(n, ast.AugAssign) and isinstance(n.target, (ast.Attribute, ast.Subscript)):
                targets = [n.target]
            for t in targets:
                kind, detail = classify_store(fn, n, t, rec, keys_of, derived, types)
                ok = not kind.startswith("bad") and kind != "unclassified"
                R.check(ok, r_store, AGG, qual, norm(n), detail if kind.startswith("bad") else f"store into {detail} is not one of the commutative merge forms: the aggregate depends on the order records are ingested", n.lineno, what_ok=kind)
                if kind in ("flag", "counter"):
                    merge_sites.append((n, kind, t))
            if isinstance(n, ast.Expr) and isinstance(n.value, ast.Call) and isinstance(n.value.func, ast.Attribute):
                m = n.value.func.attr
                on_state = _root_name(n.value.func) in (state | keys_of.fresh) - {rec}
                if m in ("add", "update"):
                    R.ok(r_store, AGG, qual, norm(n), "set-merge", n.lineno)
                    if _root_name(n.value.func) in state:
                        merge_sites.append((n, "set-add" if m == "add" else "set-merge", n.value if m == "add" else None))
                elif m == "setdefault" and on_state and len(n.value.args) == 2 and (isinstance(n.value.args[1], ast.Constant) or (isinstance(n.value.args[1], ast.Call) and call_name(n.value.args[1]) in model_classes and not bad_ctor_args(n.value.args[1], rec, keys_of(n.value.args[1])))):
                    R.ok(r_store, AGG, qual, norm(n), "create-if-absent", n.lineno)
                elif m in ("append", "extend", "insert", "pop", "remove", "clear", "setdefault", "popitem", "discard") and on_state:
                    R.violation(r_store, AGG, qual, norm(n), f"`{m}` on aggregate state is order-dependent / not a merge", n.lineno)
        for c in calls_in(fn):
            if isinstance(c.func, ast.Name) and c.func.id in model_classes and c.func.id.endswith("Aggregate"):
                bad = bad_ctor_args(c, rec, keys_of(c))
                R.check(not bad, r_store, AGG, qual, norm(c), bad, c.lineno, what_ok="constructed from its key only")
        check_entries_kept(R, r_keep, fn, qual, rec, fresh_methods, model_classes)  # first: a removal is a located violation even when the shape below is unknown
        check_registered(R, r_reg, fn, qual, rec, fresh_methods)
        check_history_free(R, r_hist, fn, qual, merge_sites, hist_seeds, method_names, pure, config)
    # the dispatchers: a record reaches its merge whatever was ingested before
    dsites: List[Tuple[ast.stmt, str, Optional[ast.AST]]] = []
    for T in WANTED:
        for st, _m2, h, _c in D.by_type[T]:
            if not any(st is s for s, _k, _x in dsites):
                dsites.append((st, f"dispatch to {h.name}", None))
    check_history_free(R, r_hist, D.fn, f"{CLS}.ingest", dsites, hist_seeds, method_names, pure, config)
    keep = tuple(sorted({h.name for _m, h in D.handlers.values()})) + ("ingest",)
    mfn = nfunc(repo, AGG, f"{CLS}.ingest_many", keep=keep)
    msites: List[Tuple[ast.stmt, str, Optional[ast.AST]]] = []
    for c in calls_in(mfn):
        for _m2, t in repo.resolve_call(agg_mod, c):
            if t is ing or id(t) in D.handlers:
                msites.append((stmt_of(c), f"dispatch to {t.name}", None))
                break
    if not msites:
        raise AnalysisError(f"{CLS}.ingest_many: no call that hands the records to ingest() found")
    check_history_free(R, r_hist, mfn, f"{CLS}.ingest_many", msites, hist_seeds, method_names, pure, config)
    # the batch is walked once: a second pass over the parameter sees nothing when the caller hands in a one-shot
    # iterator (k-way interleaving of per-run files), so which records are merged would depend on the kind of iterable
    from ..cfg import reaching_defs as _rdefs
    if len(mfn.args.args) >= 2:
        batch = mfn.args.args[1].arg
        mg = _cfg_of(mfn)
        uses = []
        for x in ast.walk(mfn):
            if isinstance(x, ast.Name) and x.id == batch and isinstance(x.ctx, ast.Load):
                st = stmt_of(x)
                nids = mg.nodes_for(st)
                if not nids or not _rdefs(mg, batch, nids[0]):
                    uses.append(x)
        in_loop = [x for x in uses if any(isinstance(a, (ast.For, ast.While)) and not (isinstance(a, ast.For) and any(x is y for y in ast.walk(a.iter))) for a in ancestors(x) if a is not mfn)]
        R.check(len(uses) <= 1 and not in_loop, r_hist, AGG, f"{CLS}.ingest_many", f"`{batch}` is traversed once", f"the batch parameter `{batch}` is read {len(uses)} times{' (inside a loop)' if in_loop else ''}: a one-shot iterator is exhausted by the first traversal and the records of the later one are never ingested, so the aggregate depends on how the caller supplies the same records", mfn.lineno, what_ok="single traversal")
    check_no_process_cells(R, r_hist, repo, cls)

    # ---------------------------------------------------------------- D4 (producer / consumer interface)
    r_key = R.rule("C13-D4-launch-key-agreement", "the fields the aggregator reads as the key of a launch aggregate carry, in the run_space_end record, the same values as in the run_space_start record of that launch: followed from the functions that build the records (constant record_type) through every function that only hands the value down, to the function that emits both edges - there the two values have the same origin (a parameter default that a call leaves out counts as the value)", 3)
    check_launch_key_agreement(R, r_key, repo, launch_key_fields)
    r_recv = R.rule("C13-D4-launch-key-written-as-received", "every record type whose merge registers / looks up a launch aggregate (the run-space edges and the record that attaches a run to its launch) gets the launch key fields written as the producer handed them to the builder: a function on the hand-down chain of one record type that writes a value computed from the key it received (`k = f(k)`) is matched by the same computation on the chain of every other joined record type - the aggregator joins these records by equality of the key, and the key reaches the builders along separate paths", 6)
    lk = launch_key_fields.get(RS_EDGES[0], set()) & launch_key_fields.get(RS_EDGES[1], set())
    joined = [T_ for T_ in WANTED if lk and lk <= registration_fields.get(T_, set())]
    if not (set(joined) - set(RS_EDGES)):
        raise AnalysisError(f"no record type besides the run-space edges registers a launch aggregate under {sorted(lk)}: how runs are attached to launches is not understood")
    check_launch_key_as_received(R, r_recv, repo, lk, joined)
    r_fh = R.rule("C13-D4-one-handle-per-trace-file", "a class that writes trace records keeps at most one open handle per file: two `open` sites kept in different write-through attributes never both open the configured path itself - the line order of a trace file is the emission order, which is what makes `run_space_start` / `pipeline_start` the first record of every crash prefix (the rows of the verdict table that are constrained)", 2)
    check_one_handle_per_file(R, r_fh, repo)
    r_txt = R.rule("C13-D4-ordered-stamps-are-fixed-width", "every value the runtime writes into a record field that the aggregator orders as it comes (`<` / `>` / min / max on the strings: run start / end merges, `start_timestamp > end_timestamp`, the fall-back from SER timing) is a rendering of the clock whose width does not depend on the instant (isoformat with an explicit timespec, strftime), and all producers render the same number of digits of the fraction of a second: only then is the order of the texts the order of the instants. Followed from the record builders (constant record_type) through locals, parameters and helper results to the expression that renders the clock", 3)
    fin = nfunc(repo, AGG, f"{CLS}.finalize_run")
    flv = lambda nm, _fn=fin: assigned_value(_fn, nm)  # noqa: E731
    for o in ordered_operands(fin):
        for p in record_read_paths(o, "<no record here>", flv, held_paths):
            if p[0] != _REC and len(p) > 1:
                ordered_fields.add((p[0], p[1:]))
    check_time_text_order(R, r_txt, repo, ordered_fields)

    # ---------------------------------------------------------------- D2
    r_of = R.rule("C13-D2-order-free-verdicts", "completeness fields built from sets/dicts are sorted; finalisation writes into aggregator state (directly or through a local that aliases it) only idempotent min/max fall-backs", 5)
    r_tot = R.rule("C13-D2-total-on-partial-state", "a field of an aggregate that stays None until its record arrives is never ordered (<, >, sort / min / max key) without a None guard: every subset of records gets a verdict instead of a TypeError", 6)
    # the function that turns the stored canonical spec into the set of expected nodes: whoever receives
    # `<run>.pipeline_spec_canonical` on the finalisation path
    en = None
    en_mod = agg_mod
    agg_pkg = AGG.rsplit("/", 1)[0] + "/"
    clo = repo.call_graph_closure([(agg_mod, repo.func(AGG, f"{CLS}.finalize_run"))], stop=lambda m, n: m is not agg_mod)
    for m_, f_, _p in sorted(clo.values(), key=lambda t: getattr(t[1], "lineno", 0)):
        if m_ is not agg_mod:
            continue
        for c in calls_in(f_):
            if any(isinstance(a, ast.Attribute) and a.attr == "pipeline_spec_canonical" for a in list(c.args) + [k.value for k in c.keywords]):
                for m2_, t_ in repo.resolve_call(m_, c):
                    # the helper may live in any module of the aggregation package (imported back into the aggregator)
                    if m2_.rel.startswith(agg_pkg) and isinstance(t_, FuncNode) and en is None:
                        en, en_mod = t_, m2_
    if en is None:
        raise AnalysisError("finalize_run: no function receives <run>.pipeline_spec_canonical (expected nodes)")
    exp_helper = en.name
    fr = nfunc(repo, AGG, f"{CLS}.finalize_run", keep=(exp_helper,))
    fl = nfunc(repo, AGG, f"{CLS}.finalize_launch", keep=(exp_helper,))
    fa = nfunc(repo, AGG, f"{CLS}.finalize_all", keep=(exp_helper,))
    # read-only accessors of the aggregate classes (`run.observed()`) are looked through like private helpers
    def _with_model_methods(f0: ast.FunctionDef) -> ast.FunctionDef:
        f1 = normalize(repo, agg_mod, f0, inline=False)
        if not inline_model_methods(repo, agg_mod, f1, cls, keep=(exp_helper,)):
            return f0
        f1 = normalize(repo, agg_mod, f1, inline=False)
        f1._parent = cls  # type: ignore[attr-defined]
        return f1

    fr, fl, fa = _with_model_methods(fr), _with_model_methods(fl), _with_model_methods(fa)
    ctor, ctor_stmt = _final_ctor(fr, "RunCompleteness")
    lctor, lctor_stmt = _final_ctor(fl, "LaunchCompleteness")
    for kw in ("missing_nodes", "orphan_nodes", "nonterminal_nodes"):
        v = kwarg(ctor, kw)
        if v is None:
            raise AnalysisError(f"finalize_run: RunCompleteness(...) has no {kw}=")
        vals = assigned_value(fr, v.id) if isinstance(v, ast.Name) else [v]
        def is_sorted(e):
            if isinstance(e, ast.IfExp):
                return is_sorted(e.body) and is_sorted(e.orelse)
            if isinstance(e, ast.List) and not e.elts:
                return True
            return isinstance(e, ast.Call) and call_attr(e) == "sorted"
        R.check(bool(vals) and all(is_sorted(x) for x in vals), r_of, AGG, f"{CLS}.finalize_run", f"{kw} is sorted(...)", f"{kw} inherits set/dict iteration order (depends on ingest order / hash seed)", ctor.lineno)
    for fn in (fr, fl, fa):
        state = _state_aliases(fn, {"self"}, fresh_methods)
        for st, obj in _store_sites(fn):
            root = _root_name(obj)
            if root is None or root not in state:
                continue
            stmt = st if isinstance(st, ast.stmt) else stmt_of(st)
            kind = "call"
            if isinstance(st, (ast.Assign, ast.AugAssign, ast.AnnAssign)) and isinstance(obj, ast.Attribute):
                kind, _detail = classify_store(fn, st, obj, "___", lambda c: set(), {})
            via = "" if root == "self" else f" (`{root}` refers to aggregator state)"
            R.check(kind == "minmax", r_of, AGG, f"{CLS}.{fn.name}", norm(stmt), f"finalisation mutates aggregate state in a non-idempotent way{via}: finalising twice (or before/after more records) changes the verdict", getattr(stmt, "lineno", 0))
    opt = optional_fields(repo)
    if len(opt) < 8:
        raise AnalysisError("models.py: fewer Optional aggregate fields than confirmed by reading")
    for item in list(cls.body) + [n for n in repo.module(AGG).tree.body if isinstance(n, FuncNode)]:
        if isinstance(item, FuncNode):
            q = f"{CLS}.{item.name}" if item in cls.body else item.name
            check_total(R, r_tot, repo, item, q, opt)

    r_rec = R.rule("C13-D3-verdict-object-is-what-was-computed", "the verdict classes are plain records (no __post_init__ / __init__ / __setattr__ / property that rewrites a field: the `status`, `problems`, `missing_nodes`, `orphan_nodes` a caller reads are the values finalize_* passed to the constructor), and no finaliser modifies a verdict object after it was built - the decision table of D3 is decided on the constructor arguments, so it only speaks about the observable verdict under this condition", 5)
    vclasses = {(call_name(ctor) or call_attr(ctor) or "").split(".")[-1]: {"status", "problems", "missing_nodes", "orphan_nodes"}, (call_name(lctor) or call_attr(lctor) or "").split(".")[-1]: {"status", "problems", "summary"}}
    for vname_, observed in vclasses.items():
        check_verdict_record(R, r_rec, repo, vname_, observed)
    for fn in (fr, fl, fa):
        check_verdict_not_rewritten(R, r_rec, fn, f"{CLS}.{fn.name}", set(vclasses), fresh_methods)

    # ---------------------------------------------------------------- D3
    r_tab = R.rule("C13-D3-verdict-table", "run verdict: start&end -> complete, start&!end -> partial; launch verdict additionally complete only if no run is partial/invalid; problems name exactly the missing edge; missing = expected - observed, orphan = observed - expected, computed whenever the canonical spec is known", 14)
    # roles: the aggregate looked up, the observed-node set, the expected-node set, the roll-up counter
    containers = _aggregate_containers(cls)
    m = _container_lookup(fr, containers, "Run") or pat.find1(fr, "_RUN_ = self._runs.get(_ID_)") or pat.find1(fr, "_RUN_ = self._runs[_ID_]") or pat.find1(fr, "_RUN_ = self.get_run(_ID_)")
    runv = pat.name_of(m[1], "_RUN_") if m else None
    if not runv:
        raise AnalysisError("finalize_run: lookup of the run aggregate (self._runs.get(..)) not found")
    m = _container_lookup(fl, containers, "Launch", "_L_") or pat.find1(fl, "_L_ = self._launches.get(_K_)") or pat.find1(fl, "_L_ = self._launches[_K_]") or pat.find1(fl, "_L_ = self.get_launch(_A_, _B_)")
    launchv = pat.name_of(m[1], "_L_") if m else None
    if not launchv:
        raise AnalysisError("finalize_launch: lookup of the launch aggregate (self._launches.get(..)) not found")
    obs_forms = {_d(_expr(s.replace("RUN", runv))) for s in ("RUN.nodes", "set(RUN.nodes)", "set(RUN.nodes.keys())", "RUN.nodes.keys()", "frozenset(RUN.nodes)", "frozenset(RUN.nodes.keys())", "{*RUN.nodes}", "set(RUN.nodes or ())")}
    obs_names = {n.targets[0].id for n in walk_no_nested(fr) if isinstance(n, ast.Assign) and len(n.targets) == 1 and isinstance(n.targets[0], ast.Name) and _d(n.value) in obs_forms and len(assigned_value(fr, n.targets[0].id)) == 1}
    obs_names |= {n.target.id for n in walk_no_nested(fr) if isinstance(n, ast.AnnAssign) and isinstance(n.target, ast.Name) and n.value is not None and _d(n.value) in obs_forms and len(assigned_value(fr, n.target.id)) == 1}
    spec_form = _d(_expr(f"{runv}.pipeline_spec_canonical"))

    def is_exp_call(e: ast.AST) -> bool:
        return isinstance(e, ast.Call) and call_attr(e) == exp_helper and (isinstance(e.func, ast.Name) or (isinstance(e.func, ast.Attribute) and isinstance(e.func.value, ast.Name) and e.func.value.id in ("self", CLS))) and [_d(a) for a in list(e.args) + [k.value for k in e.keywords]] == [spec_form]

    exp_names = {n.targets[0].id for n in walk_no_nested(fr) if isinstance(n, ast.Assign) and len(n.targets) == 1 and isinstance(n.targets[0], ast.Name) and is_exp_call(n.value) and len(assigned_value(fr, n.targets[0].id)) == 1}
    exp_names |= {n.target.id for n in walk_no_nested(fr) if isinstance(n, ast.AnnAssign) and isinstance(n.target, ast.Name) and n.value is not None and is_exp_call(n.value) and len(assigned_value(fr, n.target.id)) == 1}

    def is_obs(e: ast.AST) -> bool:
        return (isinstance(e, ast.Name) and e.id in obs_names) or _d(e) in obs_forms

    def is_exp(e: ast.AST) -> bool:
        return (isinstance(e, ast.Name) and e.id in exp_names) or is_exp_call(e)

    d_start, d_end = _d(_expr(f"{runv}.saw_start")), _d(_expr(f"{runv}.saw_end"))

    def run_atom(e: ast.AST) -> Optional[str]:
        d = _d(e)
        return "start" if d == d_start else "end" if d == d_end else "obs" if is_obs(e) else None

    status_expr = kwarg(ctor, "status")
    tree = value_tree(fr, status_expr, ctor_stmt)
    tt: Dict[Tuple[bool, ...], object] = {}
    for row in itertools.product([True, False], repeat=3):
        extras, results = eval_all(tree, run_atom, dict(zip(("start", "end", "obs"), row)), fr)
        tt[row] = results[0] if len({repr(r) for r in results}) == 1 else "|".join(sorted({repr(r) for r in results}))
        s_, e_, o_ = row
        if s_:
            _row_check(R, r_tab, f"{CLS}.finalize_run", f"row start=1 end={int(e_)} observed={int(o_)}", "complete" if e_ else "partial", extras, results, fr.lineno)
    R.extra["run_verdict_table"] = {"".join("1" if b else "0" for b in k): repr(v) if isinstance(v, _Unknown) else v for k, v in tt.items()}

    # roll-up: counts come from finalize_run of each run in launch.pipelines, into a counter created by this call
    def traversed(it: ast.AST) -> Tuple[ast.AST, bool]:
        """What a loop header walks over, without the wrappers that keep the elements (and whether it is enumerated)."""
        enum = False
        while isinstance(it, ast.Call) and call_name(it) in ("sorted", "list", "tuple", "iter", "reversed", "set", "frozenset", "enumerate") and it.args and not (call_name(it) != "enumerate" and it.keywords):
            enum = enum or call_name(it) == "enumerate"
            it = it.args[0]
        return it, enum

    loops = []
    for n in walk_no_nested(fl):
        if isinstance(n, ast.For):
            base, enum = traversed(n.iter)
            if _d(base) == _d(_expr(f"{launchv}.pipelines")):
                loops.append((n, enum))
    counts_var: Optional[str] = None
    ok = False
    loop_stmt = "for run_id in launch.pipelines: counts[finalize_run(run_id).status] += 1"
    for lp, enum in loops:
        tgt = lp.target.elts[1] if enum and isinstance(lp.target, ast.Tuple) and len(lp.target.elts) == 2 else None if enum else lp.target
        if not isinstance(tgt, ast.Name) or ok:
            continue
        it = tgt.id
        verdict_of_run = _d(_expr(f"self.finalize_run({it})"))
        holders = {n.targets[0].id for n in walk_no_nested(lp) if isinstance(n, ast.Assign) and len(n.targets) == 1 and isinstance(n.targets[0], ast.Name) and _d(n.value) == verdict_of_run}
        incs = [n for n in walk_no_nested(lp) if isinstance(n, ast.AugAssign) and isinstance(n.op, ast.Add) and isinstance(n.value, ast.Constant) and n.value.value == 1 and isinstance(n.target, ast.Subscript) and isinstance(n.target.value, ast.Name)]
        good = []
        for inc in incs:
            k = inc.target.slice
            if isinstance(k, ast.Attribute) and k.attr == "status" and (_d(k.value) == verdict_of_run or (isinstance(k.value, ast.Name) and k.value.id in holders)):
                good.append(inc)
        unconditional = not any(isinstance(x, (ast.If, ast.IfExp, ast.Continue, ast.Break, ast.Try, ast.Return)) for x in ast.walk(lp))
        if len(good) == 1 and len(incs) == 1 and unconditional and not lp.orelse:
            counts_var = good[0].target.value.id
            ok = True
        elif incs and counts_var is None:
            counts_var = incs[0].target.value.id
    R.check(ok, r_tab, AGG, f"{CLS}.finalize_launch", loop_stmt, "launch roll-up does not count every run's own verdict", fl.lineno)
    r_roll = R.rule("C13-D3-rollup-reaches-every-verdict", "the roll-up a launch verdict publishes is the counter of its runs' verdicts for every launch state: every path from the entry of finalize_launch to the construction of the verdict of a known launch runs the counting loop over the launch's runs (CFG: the loop header is passed on every path, whatever lifecycle edges were seen), and the counter it fills is what the verdict's summary carries", 2)
    counting = [lp for lp, _enum in loops if counts_var is not None and any(isinstance(n, ast.AugAssign) and isinstance(n.target, ast.Subscript) and isinstance(n.target.value, ast.Name) and n.target.value.id == counts_var for n in walk_no_nested(lp))]
    if counting and counts_var is not None:
        lg = _cfg_of(fl)
        loop_nodes = {x for lp in counting for x in lg.nodes_for(lp)}
        built_at = lg.nodes_for(stmt_of(lctor))
        if not loop_nodes or not built_at:
            raise AnalysisError("finalize_launch: no CFG node for the roll-up loop / the construction of the launch verdict")
        bad = lg.must_pass([lg.entry], built_at, lambda nd: nd.id in loop_nodes, skip_labels={"EXC", "BASE"})
        R.check(not bad, r_roll, AGG, f"{CLS}.finalize_launch", norm(counting[0], 100), f"the verdict of a known launch is built (L{getattr(lctor, 'lineno', 0)}) on a path that never runs the loop counting the runs' verdicts into `{counts_var}`: for the launch states on that path (e.g. a launch cut before run_space_end) the published roll-up stays all zeros while the runs have verdicts of their own - the launch roll-up is not the counts of its runs' verdicts for every prefix of a launch trace", getattr(counting[0], "lineno", 0), path=bad[0][1] if bad else None, what_ok="the counting loop is passed on every path to the verdict")
        # the counter is what the verdict carries
        sv = kwarg(lctor, "summary")
        carriers: List[ast.AST] = []
        if sv is not None:
            carriers.append(sv)
            if isinstance(sv, ast.Name):
                carriers += assigned_value(fl, sv.id)
                for n in walk_no_nested(fl):
                    if isinstance(n, ast.Assign) and any(isinstance(t, ast.Subscript) and _root_name(t) == sv.id for t in n.targets):
                        carriers.append(n.value)
                    if isinstance(n, ast.Call) and isinstance(n.func, ast.Attribute) and n.func.attr in ("update", "setdefault", "__setitem__") and _root_name(n.func) == sv.id:
                        carriers += list(n.args) + [k.value for k in n.keywords]
        carried = any(isinstance(x, ast.Name) and x.id == counts_var and isinstance(x.ctx, ast.Load) for c in carriers for x in ast.walk(c))
        R.check(carried, r_roll, AGG, f"{CLS}.finalize_launch", f"summary carries `{counts_var}`", f"the summary handed to the launch verdict does not carry the counter `{counts_var}` filled from the runs' verdicts: the published roll-up is something else than the counts of the launch's runs' verdicts", getattr(lctor, "lineno", 0), what_ok="roll-up published from the counter")
    if counts_var is not None:
        init = assigned_value(fl, counts_var)
        fresh = len(init) == 1 and isinstance(init[0], ast.Dict) and all(isinstance(v, ast.Constant) and v.value == 0 for v in init[0].values) and {k.value for k in init[0].keys if isinstance(k, ast.Constant)} == {"complete", "partial", "invalid"}
        fresh = fresh or (len(init) == 1 and isinstance(init[0], ast.Call) and call_name(init[0]) in ("Counter", "defaultdict") and not (init[0].args and call_name(init[0]) == "Counter"))
        labels = {"complete", "partial", "invalid"}
        def label_seq(e: ast.AST) -> bool:
            return isinstance(e, (ast.Tuple, ast.List, ast.Set)) and all(isinstance(x, ast.Constant) for x in e.elts) and {x.value for x in e.elts} == labels
        if len(init) == 1 and isinstance(init[0], ast.Call) and call_name(init[0]) == "dict.fromkeys" and len(init[0].args) == 2 and label_seq(init[0].args[0]) and isinstance(init[0].args[1], ast.Constant) and init[0].args[1].value == 0 and init[0].args[1].value is not False:
            fresh = True
        if len(init) == 1 and isinstance(init[0], ast.DictComp) and len(init[0].generators) == 1 and not init[0].generators[0].ifs and label_seq(init[0].generators[0].iter) and _d(init[0].key) == _d(init[0].generators[0].target) and isinstance(init[0].value, ast.Constant) and init[0].value.value == 0 and init[0].value.value is not False:
            fresh = True
        R.check(fresh, r_tab, AGG, f"{CLS}.finalize_launch", "roll-up counter starts from zero in every finalisation", f"the roll-up counter `{counts_var}` is not a zeroed counter created by this call ({norm(init[0]) if init else 'no initialisation'}): counts of earlier finalisations leak into this one", fl.lineno)

    l_start, l_end, l_runs = (_d(_expr(f"{launchv}.{a}")) for a in ("saw_start", "saw_end", "pipelines"))

    def launch_atom(e: ast.AST) -> Optional[str]:
        d = _d(e)
        if d == l_start:
            return "start"
        if d == l_end:
            return "end"
        if d == l_runs:
            return "runs"
        if counts_var is not None:
            def count_of(x: ast.AST, lab: str) -> bool:
                return _d(x) in (_d(_expr(f"{counts_var}[{lab!r}]")), _d(_expr(f"{counts_var}.get({lab!r})")), _d(_expr(f"{counts_var}.get({lab!r}, 0)")))
            for lab in ("partial", "invalid", "complete"):
                if count_of(e, lab):
                    return lab
            if isinstance(e, ast.Compare) and len(e.ops) == 1 and isinstance(e.ops[0], ast.Eq):
                a, b = e.left, e.comparators[0]
                total = _d(_expr(f"len({launchv}.pipelines)"))
                if (count_of(a, "complete") and _d(b) == total) or (count_of(b, "complete") and _d(a) == total):
                    return "all_complete"
        return None

    ltree = value_tree(fl, kwarg(lctor, "status"), lctor_stmt)
    ltt: Dict[Tuple[bool, ...], object] = {}
    for row in itertools.product([True, False], repeat=5):
        s, e, runs, part, inv = row
        if (part or inv) and not runs:
            continue  # infeasible: a run verdict without runs
        env = dict(zip(("start", "end", "runs", "partial", "invalid"), row))
        env["all_complete"] = not (part or inv)  # counts['complete'] == number of runs
        extras, results = eval_all(ltree, launch_atom, env, fl)
        ltt[row] = results
        if s and e:
            want = "partial" if (part or inv) else "complete"
        elif s and not e:
            want = "partial"
        else:
            continue
        _row_check(R, r_tab, f"{CLS}.finalize_launch", f"row start={int(s)} end={int(e)} runs={int(runs)} partial={int(part)} invalid={int(inv)}", want, extras, results, fl.lineno)
    R.extra["launch_verdict_rows"] = len(ltt)
    # problems polarity
    for fn, base, call, names in ((fr, runv, ctor, {"saw_start": "missing_pipeline_start", "saw_end": "missing_pipeline_end"}), (fl, launchv, lctor, {"saw_start": "missing_run_space_start", "saw_end": "missing_run_space_end"})):
        pv = kwarg(call, "problems")
        for flag, label in names.items():
            found = False
            for n in walk_no_nested(fn):
                if isinstance(n, ast.If) and isinstance(n.test, ast.UnaryOp) and isinstance(n.test.op, ast.Not) and dotted_name(n.test.operand) == f"{base}.{flag}":
                    apps = [c for st in n.body for c in calls_in(st) if call_attr(c) == "append" and c.args and isinstance(c.args[0], ast.Constant) and _d(c.func.value) == _d(pv)]
                    if apps and apps[0].args[0].value == label and len(apps) == 1 and not n.orelse:
                        found = True
            R.check(found, r_tab, AGG, f"{CLS}.{fn.name}", f"if not <aggregate>.{flag}: problems.append({label!r})", f"the missing edge {label} is not named exactly when {flag} is false", fn.lineno)
    # set difference directions and guards
    for kw, (lf, rf, txt) in {"missing_nodes": (is_exp, is_obs, "expected - observed"), "orphan_nodes": (is_obs, is_exp, "observed - expected")}.items():
        v = kwarg(ctor, kw)
        defs: List[Tuple[ast.AST, ast.AST]] = [(n, n.value) for n in walk_no_nested(fr) if isinstance(n, (ast.Assign, ast.AnnAssign)) and n.value is not None and isinstance(v, ast.Name) and any(dotted_name(t) == v.id for t in (n.targets if isinstance(n, ast.Assign) else [n.target]))]
        if not isinstance(v, ast.Name):
            defs = [(ctor_stmt, v)]
        ok = False
        guard_ok = True
        extra_cond: Optional[Tuple[ast.AST, ast.AST]] = None
        for d, val in defs:
            subs = [b for b in ast.walk(val) if isinstance(b, ast.BinOp) and isinstance(b.op, ast.Sub)]
            ok = ok or any(lf(b.left) and rf(b.right) for b in subs)
            ok = ok or any(isinstance(c, ast.Call) and isinstance(c.func, ast.Attribute) and c.func.attr == "difference" and len(c.args) == 1 and not c.keywords and lf(c.func.value) and rf(c.args[0]) for c in ast.walk(val))
            gtests: List[ast.AST] = [t for t, _pol in _guards(d, fr)]
            for e in ast.walk(val):
                if isinstance(e, ast.IfExp):
                    gtests.append(e.test)
            for t in gtests:
                for x in ast.walk(t):
                    if isinstance(x, ast.Name) and not is_exp(x) and x.id not in ("len", "bool"):
                        guard_ok = False
                        extra_cond = extra_cond or (t, x)
                    if isinstance(x, ast.Attribute) and _root_name(x) == runv and not x.attr == "pipeline_spec_canonical":
                        guard_ok = False
                        extra_cond = extra_cond or (t, x)
        R.check(ok, r_tab, AGG, f"{CLS}.finalize_run", f"{kw} = {txt}", f"{kw} is not the set difference {txt} (expected = _expected_nodes(<run>.pipeline_spec_canonical), observed = keys of <run>.nodes)", ctor.lineno)
        R.check(guard_ok, r_tab, AGG, f"{CLS}.finalize_run", f"{kw} computed whenever the canonical spec is known", f"{kw} is only computed under an extra condition" + (f" (`{norm(extra_cond[0], 70)}` reads `{ast.unparse(extra_cond[1])}`" + (f" = `{norm(assigned_value(fr, extra_cond[1].id)[0], 70)}`" if isinstance(extra_cond[1], ast.Name) and len(assigned_value(fr, extra_cond[1].id)) == 1 else "") + ")" if extra_cond else "") + ": for the runs / prefixes where it is false the verdict reports no missing (orphan) nodes although canonical nodes have no SER - the documented value is the set difference whenever the canonical spec is known", ctor.lineno)
    # observed = keys of run.nodes; expected from the stored canonical spec
    R.check(bool(obs_names) or any(_d(x) in obs_forms - {_d(_expr(f"{runv}.nodes"))} for x in ast.walk(fr)), r_tab, AGG, f"{CLS}.finalize_run", "observed_nodes = set(run.nodes)", "observed nodes are not the nodes with a SER", fr.lineno)
    R.check(bool(exp_names) or any(is_exp_call(x) for x in ast.walk(fr)), r_tab, AGG, f"{CLS}.finalize_run", "expected from run.pipeline_spec_canonical", "expected nodes do not come from the run's canonical spec", fr.lineno)
    collects = any(isinstance(x, ast.Call) and isinstance(x.func, ast.Attribute) and x.func.attr in ("add", "update") for x in ast.walk(en)) or any(isinstance(x, ast.SetComp) or (isinstance(x, ast.Call) and call_name(x) in ("set", "frozenset") and x.args and isinstance(x.args[0], (ast.GeneratorExp, ast.ListComp))) for x in ast.walk(en))
    cut_short = any(isinstance(x, ast.Break) for x in ast.walk(en)) or any(isinstance(x, ast.Return) for lp in ast.walk(en) if isinstance(lp, (ast.For, ast.While)) for x in ast.walk(lp))
    reads_uuid = any(isinstance(x, ast.Constant) and x.value == "node_uuid" for x in ast.walk(en))
    # nothing is taken out of the collection again (`collected &= ..`, `-=`, discard / remove / intersection_update)
    for x in ast.walk(en):
        if (isinstance(x, ast.AugAssign) and isinstance(x.op, (ast.BitAnd, ast.Sub, ast.BitXor))) or (isinstance(x, ast.Call) and isinstance(x.func, ast.Attribute) and x.func.attr in REMOVERS):
            cut_short = True
    R.check(reads_uuid and collects and not cut_short, r_tab, en_mod.rel, qualname_of(en), "collects node_uuid of every canonical node", "expected-node extraction drops nodes", en.lineno)
