"""C13 - trace aggregation is order-independent and right for every partial trace.

D1 every store of the ingest methods (normal form, helpers inlined) is a commutative merge (classified); aggregates
   are created from their key only; an aggregate that receives a merge is stored in the aggregator (CFG: no path
   construction -> merge -> return without a registration),
D2 verdict fields are order-free functions of merged state; finalisation writes to aggregator state - directly or
   through an aliasing local - only idempotent min/max fall-backs; a None-until-ingested field is never ordered
   without a None guard (finalisation is total on every subset of records),
D3 verdict decision trees (if statements / conditional expressions, roles found by pattern, tests outside the table
   treated as free booleans), roll-up counter zeroed per call, set-difference directions.
"""
from __future__ import annotations

import ast
import itertools
from typing import Dict, List, Optional, Set, Tuple

from ..engine import (
    AnalysisError,
    FuncNode,
    Repo,
    ancestors,
    assigned_value,
    call_attr,
    call_name,
    calls_in,
    dotted_name,
    kwarg,
    norm,
    parent,
    stmt_of,
    walk_no_nested,
)
from ..report import Report

AGG = "semantiva/trace/aggregation/aggregator.py"
CLS = "TraceAggregator"
# record types that are unique per key by the producer's lifecycle (C06-D1 / C09-D2)
UNIQUE_PER_KEY = {"_ingest_pipeline_start", "_ingest_run_space_start", "_ingest_pipeline_end", "_ingest_run_space_end"}
SER_LAST_WRITER = {"last_seq", "last_status", "timing", "last_error"}


def _guards(node: ast.AST, stop: ast.AST) -> List[Tuple[ast.AST, bool]]:
    """(test, polarity) of the if-statements enclosing *node* up to *stop*."""
    out = []
    child = node
    for a in ancestors(node):
        if a is stop:
            break
        if isinstance(a, ast.If):
            in_body = any(child is s or any(child is x for x in ast.walk(s)) for s in a.body)
            out.append((a.test, in_body))
        child = a
    return out


def _is_record_read(e: ast.AST, rec: str) -> bool:
    """record.get("k") / (record.get("a") or {}).get("b") / record["k"] chains."""
    for n in ast.walk(e):
        if isinstance(n, ast.Name) and n.id == rec:
            return True
    return False


def bad_ctor_args(c: ast.Call, rec: str, key_vars: Set[str]) -> str:
    """Non-empty explanation when an aggregate constructor receives anything but the key it is stored under."""
    args = list(c.args) + [k.value for k in c.keywords]
    argnames = {x.id for a in args for x in ast.walk(a) if isinstance(x, ast.Name)}
    extra = argnames - key_vars
    reads_record = any(_is_record_read(a, rec) for a in args)
    if extra or reads_record:
        return f"the aggregate is constructed from record fields other than its key ({sorted(extra) or 'record'}): they are kept only if this record happens to be the first one seen for the key"
    return ""


def classify_store(fn: ast.FunctionDef, st: ast.AST, target: ast.AST, rec: str, key_vars: Set[str], derived: Dict[str, ast.AST]) -> Tuple[str, str]:
    """Return (class, detail) for a store into an aggregate."""
    guards = _guards(st, fn)
    value = getattr(st, "value", None)
    tname = dotted_name(target) if not isinstance(target, ast.Subscript) else (dotted_name(target.value) or "") + "[...]"
    # create-if-absent: container[key] = fresh aggregate, guarded by `if not <x>` where x = container.get(key)
    if isinstance(target, ast.Subscript) and isinstance(value, ast.Name):
        ctor_defs = [v for v in assigned_value(fn, value.id) if isinstance(v, ast.Call) and not (call_attr(v) == "get")]
        absent_guard = any(pol and isinstance(t, ast.UnaryOp) and isinstance(t.op, ast.Not) and dotted_name(t.operand) == value.id for t, pol in guards) or any(
            pol and isinstance(t, ast.Compare) and isinstance(t.ops[0], ast.Is) and dotted_name(t.left) == value.id for t, pol in guards)
        # or unconditionally re-stored after `x = container.get(key) or Ctor(..)`: what is written is what was there, or new
        all_defs = assigned_value(fn, value.id)
        lookup = ast.dump(ast.Call(func=ast.Attribute(value=target.value, attr="get", ctx=ast.Load()), args=[target.slice], keywords=[]), include_attributes=False).replace("Store()", "Load()")
        restore = False
        if len(all_defs) == 1 and isinstance(all_defs[0], ast.BoolOp) and isinstance(all_defs[0].op, ast.Or) and len(all_defs[0].values) == 2:
            first, second = all_defs[0].values
            if ast.dump(first, include_attributes=False) == lookup and isinstance(second, ast.Call) and isinstance(second.func, ast.Name):
                restore = True
                ctor_defs = [second]
        if (ctor_defs and absent_guard) or restore:
            for c in ctor_defs:
                bad = bad_ctor_args(c, rec, key_vars)
                if bad:
                    return "bad-create", bad
            return "create-if-absent", tname
    # counter: x[k] = x.get(k, 0) + 1  /  x += 1
    if isinstance(st, ast.AugAssign) and isinstance(st.op, ast.Add):
        return "counter", tname
    if isinstance(value, ast.BinOp) and isinstance(value.op, ast.Add) and isinstance(value.right, ast.Constant) and isinstance(target, ast.Subscript):
        left = value.left
        if isinstance(left, ast.Call) and call_attr(left) == "get" and dotted_name(left.func.value) == dotted_name(target.value):
            return "counter", tname
    # flag := True
    if isinstance(value, ast.Constant) and value.value is True:
        return "flag", tname
    # min/max merge: guarded by (x is None or v < x) / (v > x)
    field = dotted_name(target)
    vname = dotted_name(value) if value is not None else None
    for t, pol in guards:
        if not pol:
            continue
        for cmp_ in [n for n in ast.walk(t) if isinstance(n, ast.Compare) and len(n.ops) == 1 and isinstance(n.ops[0], (ast.Lt, ast.Gt, ast.LtE, ast.GtE))]:
            l, r = dotted_name(cmp_.left), dotted_name(cmp_.comparators[0])
            if {l, r} == {vname, field} and vname is not None:
                none_alt = any(isinstance(c, ast.Compare) and isinstance(c.ops[0], ast.Is) and dotted_name(c.left) == field for c in ast.walk(t))
                return ("minmax", tname) if none_alt else ("bad-minmax", "min/max merge without the `is None` alternative")
    # assign-if-present from the record
    if value is not None and _is_record_read(value, rec) or (vname in derived):
        present = any(pol and (_is_record_read(t, rec) or any(isinstance(x, ast.Name) and x.id in derived for x in ast.walk(t))) for t, pol in guards)
        if fn.name == "_ingest_ser":
            attr = target.attr if isinstance(target, ast.Attribute) else ""
            if attr in SER_LAST_WRITER:
                return "last-writer-ser", tname
            return "bad-overwrite", "a SER field overwrites shared state unconditionally"
        if fn.name in UNIQUE_PER_KEY:
            return ("assign-if-present" if present else "assign-unique"), tname
    if fn.name == "_ingest_ser" and isinstance(target, ast.Attribute) and target.attr in SER_LAST_WRITER:
        return "last-writer-ser", tname
    return "unclassified", tname


# ---------------------------------------------------------------------------------------------------------
# helpers shared by the rules below
# ---------------------------------------------------------------------------------------------------------

def _d(e: Optional[ast.AST]) -> str:
    return "" if e is None else ast.dump(e, include_attributes=False).replace("ctx=Store()", "ctx=Load()")


def _expr(src: str) -> ast.AST:
    return ast.parse(src, mode="eval").body


def _root_name(e: ast.AST) -> Optional[str]:
    """Name at the bottom of an attribute / subscript / method-call chain (``a.b[c].get(d).e`` -> ``a``)."""
    while True:
        if isinstance(e, (ast.Attribute, ast.Subscript, ast.Starred)):
            e = e.value
        elif isinstance(e, ast.Call) and isinstance(e.func, ast.Attribute):
            e = e.func.value
        elif isinstance(e, ast.Name):
            return e.id
        else:
            return None


STORE_METHODS = {"append", "extend", "add", "update", "pop", "popitem", "setdefault", "clear", "remove", "insert", "discard", "sort", "reverse", "appendleft", "popleft", "__setitem__", "__delitem__", "difference_update", "intersection_update", "symmetric_difference_update"}
# builtins whose result is a new object that shares no mutable container with its arguments
FRESH_BUILTINS = {"set", "sorted", "list", "dict", "tuple", "frozenset", "len", "round", "max", "min", "sum", "str", "int", "float", "bool", "any", "all", "repr", "abs"}


def _store_sites(fn: ast.AST) -> List[Tuple[ast.AST, ast.AST]]:
    """(statement-or-call, mutated object expression) for every store through an attribute / subscript / mutator call."""
    out: List[Tuple[ast.AST, ast.AST]] = []
    for n in walk_no_nested(fn):
        tgts: List[ast.AST] = []
        if isinstance(n, ast.Assign):
            tgts = list(n.targets)
        elif isinstance(n, (ast.AugAssign, ast.AnnAssign)):
            tgts = [n.target] if not (isinstance(n, ast.AnnAssign) and n.value is None) else []
        elif isinstance(n, ast.Delete):
            tgts = list(n.targets)
        flat: List[ast.AST] = []
        for t in tgts:
            flat.extend(t.elts if isinstance(t, (ast.Tuple, ast.List)) else [t])
        for t in flat:
            if isinstance(t, (ast.Attribute, ast.Subscript)):
                out.append((n, t))
        if isinstance(n, ast.Call):
            if isinstance(n.func, ast.Attribute) and n.func.attr in STORE_METHODS:
                out.append((n, n.func))
            elif call_name(n) in ("setattr", "delattr") and n.args:
                out.append((n, ast.Attribute(value=n.args[0], attr="?", ctx=ast.Store())))
    return out


def fresh_result_methods(cls: ast.ClassDef) -> Set[str]:
    """Methods of the aggregator whose declared result is a newly built verdict (or nothing), not stored state."""
    out: Set[str] = set()
    for m in cls.body:
        if isinstance(m, FuncNode) and m.returns is not None:
            r = ast.unparse(m.returns)
            if "Aggregate" not in r and ("Completeness" in r or r == "None"):
                out.add(m.name)
    return out


def _state_aliases(fn: ast.AST, seeds: Set[str], fresh_methods: Set[str] = frozenset()) -> Set[str]:
    """Locals that may refer to (a part of) an object reachable from one of *seeds* (may-alias, flow-insensitive)."""
    rooted = set(seeds)

    def may_alias(e: Optional[ast.AST]) -> bool:
        if e is None:
            return False
        if isinstance(e, ast.Name):
            return e.id in rooted
        if isinstance(e, (ast.Attribute, ast.Subscript, ast.Starred)):
            return may_alias(e.value)
        if isinstance(e, ast.BoolOp):
            return any(may_alias(v) for v in e.values)
        if isinstance(e, ast.IfExp):
            return may_alias(e.body) or may_alias(e.orelse)
        if isinstance(e, ast.NamedExpr):
            return may_alias(e.value)
        if isinstance(e, (ast.Tuple, ast.List)) and isinstance(getattr(e, "ctx", None), ast.Load):
            return any(may_alias(x) for x in e.elts)  # unpacked on the other side
        if isinstance(e, ast.Call):
            if isinstance(e.func, ast.Name):
                if e.func.id in FRESH_BUILTINS:
                    return False
                if e.func.id[:1].isupper():
                    return False  # constructor: a new object
                return any(may_alias(a) for a in list(e.args) + [k.value for k in e.keywords])
            if isinstance(e.func, ast.Attribute):
                if may_alias(e.func.value):
                    # a method of a state object hands out stored objects (container accessors, get_run), except the
                    # methods of the analysed class that are declared to build a new verdict object
                    return not (isinstance(e.func.value, ast.Name) and e.func.value.id == "self" and e.func.attr in fresh_methods)
                return any(may_alias(a) for a in list(e.args) + [k.value for k in e.keywords])
        return False

    changed = True
    while changed:
        changed = False
        for n in walk_no_nested(fn):
            pairs: List[Tuple[ast.AST, Optional[ast.AST]]] = []
            if isinstance(n, ast.Assign):
                pairs = [(t, n.value) for t in n.targets]
            elif isinstance(n, ast.AnnAssign):
                pairs = [(n.target, n.value)]
            elif isinstance(n, (ast.For, ast.AsyncFor)):
                pairs = [(n.target, n.iter)]
            elif isinstance(n, ast.comprehension):
                pairs = [(n.target, n.iter)]
            elif isinstance(n, ast.NamedExpr):
                pairs = [(n.target, n.value)]
            elif isinstance(n, ast.withitem) and n.optional_vars is not None:
                pairs = [(n.optional_vars, n.context_expr)]
            for tgt, val in pairs:
                if not may_alias(val):
                    continue
                for x in ast.walk(tgt):
                    if isinstance(x, ast.Name) and isinstance(x.ctx, ast.Store) and x.id not in rooted:
                        rooted.add(x.id)
                        changed = True
    return rooted


# ---------------------------------------------------------------------------------------------------------
# D1b: an aggregate that receives a merge is (already) stored in the aggregator
# ---------------------------------------------------------------------------------------------------------

def _leaves(e: ast.AST) -> List[ast.AST]:
    """Alternatives an expression may evaluate to (`a or b`, `x if c else y`, `d.get(k, default)`)."""
    if isinstance(e, ast.BoolOp):
        return [l for v in e.values for l in _leaves(v)]
    if isinstance(e, ast.IfExp):
        return _leaves(e.body) + _leaves(e.orelse)
    if isinstance(e, ast.NamedExpr):
        return _leaves(e.value)
    if isinstance(e, ast.Call) and isinstance(e.func, ast.Attribute) and e.func.attr == "get" and len(e.args) == 2:
        return [ast.Call(func=e.func, args=[e.args[0]], keywords=[])] + _leaves(e.args[1])
    return [e]


def check_registered(R: Report, rule: str, fn: ast.FunctionDef, qual: str, rec: str, fresh_methods: Set[str] = frozenset()) -> None:
    """Every aggregate object an ingest method writes to comes out of a container reachable from ``self`` or, when
    it is constructed on the spot, is stored into such a container on every path before the method ends."""
    from ..cfg import CFG, reaching_defs

    g = CFG(fn)
    state = _state_aliases(fn, {"self"}, fresh_methods)
    # locals bound to freshly constructed aggregates also count as roots for nested containers (run.nodes[...] = node)
    fresh_locals: Set[str] = set()
    for n in walk_no_nested(fn):
        if isinstance(n, (ast.Assign, ast.AnnAssign)) and n.value is not None:
            tg = n.targets[0] if isinstance(n, ast.Assign) else n.target
            if isinstance(tg, ast.Name) and any(isinstance(l, ast.Call) and isinstance(l.func, ast.Name) and l.func.id[:1].isupper() for l in _leaves(n.value)):
                fresh_locals.add(tg.id)

    def node_of(st: ast.AST) -> Optional[int]:
        ids = g.nodes_for(st)
        return ids[0] if ids else None

    def is_registration(node, names: Set[str]) -> bool:
        a = node.ast
        if node.kind != "stmt" or a is None:
            return False
        if isinstance(a, ast.Assign) and isinstance(a.value, ast.Name) and a.value.id in names:
            for t in a.targets:
                if isinstance(t, ast.Subscript) and _root_name(t) in (state | fresh_locals) and _root_name(t) not in names and _root_name(t) != rec:
                    return True
        for c in calls_in(a):
            if isinstance(c.func, ast.Attribute) and c.func.attr in ("setdefault", "__setitem__") and len(c.args) == 2 and isinstance(c.args[1], ast.Name) and c.args[1].id in names and _root_name(c.func) in state:
                return True
        return False

    seen_defs: Set[Tuple[int, int]] = set()

    def origins(name: str, use: int, site: int, aliases: Set[str], site_stmt: ast.AST, depth: int = 0) -> None:
        if depth > 6:
            raise AnalysisError(f"{qual}: alias chain of {name} too deep")
        defs = reaching_defs(g, name, use)
        if not defs:
            raise AnalysisError(f"{qual}: no definition of the written object `{name}` reaches L{getattr(site_stmt, 'lineno', 0)}")
        for dn in defs:
            a = dn.ast
            if dn.kind == "for" or isinstance(a, (ast.For, ast.AsyncFor)):
                if _root_name(a.iter) in state:
                    continue  # iterating stored objects
                raise AnalysisError(f"{qual}: `{name}` iterates over something that is not aggregator state")
            if not isinstance(a, (ast.Assign, ast.AnnAssign)) or a.value is None:
                raise AnalysisError(f"{qual}: definition of `{name}` has an unknown shape: {norm(a)}")
            tg = a.targets[0] if isinstance(a, ast.Assign) else a.target
            if not isinstance(tg, ast.Name):
                raise AnalysisError(f"{qual}: `{name}` is bound by unpacking: {norm(a)}")
            for leaf in _leaves(a.value):
                if isinstance(leaf, ast.Constant):
                    continue  # None / falsy alternative: a write through it would raise, not lose data
                if isinstance(leaf, ast.Name):
                    origins(leaf.id, dn.id, site, aliases | {name}, site_stmt, depth + 1)
                    continue
                is_lookup = (isinstance(leaf, ast.Subscript) or (isinstance(leaf, ast.Call) and isinstance(leaf.func, ast.Attribute) and leaf.func.attr in ("get", "setdefault") and len(leaf.args) <= 2) or isinstance(leaf, ast.Attribute)) and _root_name(leaf) in (state | fresh_locals) and _root_name(leaf) != rec
                if is_lookup:
                    continue  # what the aggregator already holds (setdefault stores its default itself)
                if isinstance(leaf, ast.Call) and isinstance(leaf.func, ast.Name) and leaf.func.id[:1].isupper():
                    key = (dn.id, site)
                    if key in seen_defs:
                        continue
                    seen_defs.add(key)
                    names = aliases | {name}
                    # lost iff some path construction -> merge -> normal return never stores the object
                    bad = g.must_pass([dn.id], [site], lambda nd: is_registration(nd, names), skip_labels={"EXC", "BASE"})
                    if bad:
                        tail = g.must_pass([site], [g.ret_exit], lambda nd: is_registration(nd, names), skip_labels={"EXC", "BASE"})
                        bad = [(bad[0][0], bad[0][1] + tail[0][1][1:])] if tail else []
                    R.check(not bad, rule, AGG, qual, norm(a), f"the `{leaf.func.id}` constructed here receives the merge at L{getattr(site_stmt, 'lineno', 0)} (`{norm(site_stmt, 60)}`) without having been stored in a container of the aggregator: when this record is the first one seen for its key the merge is thrown away, so the verdict depends on the ingest order", getattr(a, "lineno", 0), path=bad[0][1] if bad else None, what_ok="registered-before-merge")
                    continue
                raise AnalysisError(f"{qual}: origin of the written object `{name}` not understood: {norm(leaf)}")

    for st, obj in _store_sites(fn):
        root = _root_name(obj)
        if root is None or root == "self" or root == rec:
            continue
        if root not in state and root not in fresh_locals:
            continue  # scratch local (a dict / list built here)
        stmt = stmt_of(st) if not isinstance(st, ast.stmt) else st
        sid = node_of(stmt)
        if sid is None:
            raise AnalysisError(f"{qual}: no CFG node for {norm(stmt)}")
        # the registration statement itself (`run.nodes[k] = node`) is a store into `run`, handled like any other
        origins(root, sid, sid, set(), stmt)


# ---------------------------------------------------------------------------------------------------------
# D2b: finalisation is total on partially filled aggregates (no ordering of a possibly-None field)
# ---------------------------------------------------------------------------------------------------------

MODELS = "semantiva/trace/aggregation/models.py"


def optional_fields(repo: Repo) -> Set[str]:
    """Fields of the aggregate dataclasses that are None until the record that sets them has been ingested."""
    mod = repo.module(MODELS)
    out: Set[str] = set()
    for c in mod.tree.body:
        if isinstance(c, ast.ClassDef) and c.name.endswith("Aggregate"):
            for st in c.body:
                if isinstance(st, ast.AnnAssign) and isinstance(st.target, ast.Name) and isinstance(st.value, ast.Constant) and st.value.value is None:
                    out.add(st.target.id)
    return out


def _nonnull_edges(test: ast.AST, D: str) -> Set[str]:
    from ..cfg import edges_guaranteeing

    def atom(e: ast.AST) -> Optional[bool]:
        if _d(e) == D:
            return True
        if isinstance(e, ast.Compare) and len(e.ops) == 1 and _d(e.left) == D and isinstance(e.comparators[0], ast.Constant) and e.comparators[0].value is None:
            if isinstance(e.ops[0], (ast.IsNot, ast.NotEq)):
                return True
            if isinstance(e.ops[0], (ast.Is, ast.Eq)):
                return False
        if isinstance(e, ast.Call) and call_name(e) == "isinstance" and e.args and _d(e.args[0]) == D:
            return True
        return None

    return edges_guaranteeing(test, atom)


def _terminates(body: List[ast.stmt]) -> bool:
    return bool(body) and isinstance(body[-1], (ast.Return, ast.Raise, ast.Continue, ast.Break))


def nonnull_guarded(use: ast.AST, D: str, stop: ast.AST) -> bool:
    """True iff on every way of evaluating *use* the expression with dump *D* is known to be not None
    (short-circuit operand, enclosing if / conditional expression / comprehension filter, or an earlier early exit)."""
    child = use
    for a in ancestors(use):
        if isinstance(a, ast.BoolOp):
            idx = next((i for i, v in enumerate(a.values) if v is child), None)
            if idx is not None:
                for v in a.values[:idx]:
                    e = _nonnull_edges(v, D)
                    if (isinstance(a.op, ast.And) and "T" in e) or (isinstance(a.op, ast.Or) and "F" in e):
                        return True
        elif isinstance(a, (ast.If, ast.While)):
            e = _nonnull_edges(a.test, D)
            if any(child is s for s in a.body) and "T" in e:
                return True
            if any(child is s for s in a.orelse) and "F" in e and isinstance(a, ast.If):
                return True
        elif isinstance(a, ast.IfExp):
            e = _nonnull_edges(a.test, D)
            if (child is a.body and "T" in e) or (child is a.orelse and "F" in e):
                return True
        elif isinstance(a, (ast.ListComp, ast.SetComp, ast.GeneratorExp, ast.DictComp)):
            if child is not None and not isinstance(child, ast.comprehension):
                if any("T" in _nonnull_edges(c, D) for gen in a.generators for c in gen.ifs):
                    return True
        # an earlier sibling statement that leaves when the value is None
        for fld in ("body", "orelse", "finalbody"):
            blk = getattr(a, fld, None)
            if isinstance(blk, list) and any(child is s for s in blk):
                for s in blk:
                    if s is child:
                        break
                    if isinstance(s, ast.If) and _terminates(s.body) and "F" in _nonnull_edges(s.test, D):
                        return True
        if a is stop:
            break
        child = a
    return False


def check_total(R: Report, rule: str, repo: Repo, fn: ast.AST, qual: str, opt: Set[str]) -> None:
    def is_opt(e: ast.AST) -> bool:
        return isinstance(e, ast.Attribute) and e.attr in opt and isinstance(e.ctx, ast.Load)

    def exposed(e: ast.AST) -> List[ast.AST]:
        """Optional-field reads that can become (a component of) the value of *e* while None."""
        if is_opt(e):
            return [] if nonnull_guarded(e, _d(e), fn) else [e]
        if isinstance(e, (ast.Tuple, ast.List)):
            return [x for el in e.elts for x in exposed(el)]
        if isinstance(e, ast.BoolOp) and isinstance(e.op, ast.Or):
            return exposed(e.values[-1])
        if isinstance(e, ast.BoolOp):
            return [x for v in e.values for x in exposed(v)]
        if isinstance(e, ast.IfExp):
            return exposed(e.body) + exposed(e.orelse)
        return []

    for n in ast.walk(fn):
        if isinstance(n, ast.Compare) and any(isinstance(o, (ast.Lt, ast.Gt, ast.LtE, ast.GtE)) for o in n.ops):
            operands = [n.left] + list(n.comparators)
            for i, o in enumerate(operands):
                ordered = (i > 0 and isinstance(n.ops[i - 1], (ast.Lt, ast.Gt, ast.LtE, ast.GtE))) or (i < len(n.ops) and isinstance(n.ops[i], (ast.Lt, ast.Gt, ast.LtE, ast.GtE)))
                if ordered and is_opt(o):
                    R.check(nonnull_guarded(n, _d(o), fn), rule, AGG, qual, norm(n), f"`{ast.unparse(o)}` is None until the record that sets it has been ingested, and is ordered against another value here without a None guard: for a subset of records that lacks that record the call raises TypeError instead of giving a verdict", getattr(n, "lineno", 0), what_ok="none-guarded comparison")
        if isinstance(n, ast.Call):
            fname = call_name(n) if isinstance(n.func, ast.Name) else (n.func.attr if isinstance(n.func, ast.Attribute) else None)
            if fname not in ("sorted", "min", "max", "sort", "nsmallest", "nlargest", "bisect", "insort"):
                continue
            cands: List[ast.AST] = []
            k = kwarg(n, "key")
            if isinstance(k, ast.Lambda):
                cands.append(k.body)
            elif k is None:
                for a in n.args:
                    if isinstance(a, (ast.ListComp, ast.SetComp, ast.GeneratorExp)):
                        cands.append(a.elt)
                    elif fname in ("min", "max") and len(n.args) > 1:
                        cands.append(a)
            for c in cands:
                bad = exposed(c)
                if any(is_opt(x) for x in ast.walk(c)):
                    R.check(not bad, rule, AGG, qual, norm(n), f"the ordering key contains `{ast.unparse(bad[0]) if bad else ''}`, which is None for an aggregate whose defining record is not in the ingested set: comparing None with a value raises TypeError, so there is no verdict for that subset of records", getattr(n, "lineno", 0), what_ok="ordering key cannot be None")


# ---------------------------------------------------------------------------------------------------------
# D3: decision tree of a verdict variable
# ---------------------------------------------------------------------------------------------------------

class _Unknown:
    def __init__(self, e: ast.AST) -> None:
        self.src = ast.unparse(e)

    def __repr__(self) -> str:
        return f"<{self.src}>"

    def __eq__(self, other) -> bool:
        return False

    __hash__ = object.__hash__


def _tree_of_expr(e: ast.AST):
    if isinstance(e, ast.Constant):
        return ("leaf", e.value)
    if isinstance(e, ast.IfExp):
        return ("if", e.test, _tree_of_expr(e.body), _tree_of_expr(e.orelse))
    if isinstance(e, ast.Call) and call_name(e) == "cast" and len(e.args) == 2:
        return _tree_of_expr(e.args[1])
    return ("leaf", _Unknown(e))


def value_tree(fn: ast.FunctionDef, value: ast.AST, at: ast.AST):
    """Decision tree (over the tests of if statements / conditional expressions) of the constant that *value*
    holds when statement *at* (a top-level statement of *fn*) is reached."""
    if not isinstance(value, ast.Name):
        return _tree_of_expr(value)
    var = value.id

    def assigns(node: ast.AST) -> bool:
        return any(isinstance(x, ast.Name) and x.id == var and isinstance(x.ctx, ast.Store) for x in ast.walk(node))

    def block(stmts: List[ast.stmt], cur):
        for st in stmts:
            if st is at:
                break
            if isinstance(st, (ast.Assign, ast.AnnAssign)) and assigns(st):
                tg = st.targets[0] if isinstance(st, ast.Assign) else st.target
                if not (isinstance(tg, ast.Name) and (isinstance(st, ast.AnnAssign) or len(st.targets) == 1)):
                    raise AnalysisError(f"{fn.name}: verdict variable {var} assigned by unpacking")
                if st.value is not None:
                    cur = _tree_of_expr(st.value)
            elif isinstance(st, ast.If):
                b = block(st.body, cur)
                o = block(st.orelse, cur)
                if b is not cur or o is not cur:
                    cur = ("if", st.test, b, o)
            elif assigns(st):
                raise AnalysisError(f"{fn.name}: verdict variable {var} assigned inside {type(st).__name__}")
        return cur

    tree = block(fn.body, None)
    if tree is None:
        raise AnalysisError(f"{fn.name}: no assignment of the verdict variable {var} found")
    return tree


def _block_after(stmt: ast.stmt) -> Optional[List[ast.stmt]]:
    p = parent(stmt)
    for fld in ("body", "orelse", "finalbody"):
        blk = getattr(p, fld, None)
        if isinstance(blk, list) and any(stmt is s for s in blk):
            i = next(i for i, s in enumerate(blk) if s is stmt)
            return blk[i + 1:]
    return None


def local_definition(fn: ast.AST, use: ast.Name) -> Optional[ast.AST]:
    """The expression a local stands for at *use*: its only definition, in a block that also holds the use later on,
    with nothing in between that writes to (or through) a name the expression reads."""
    stores = [n for n in walk_no_nested(fn) if isinstance(n, ast.Name) and n.id == use.id and isinstance(n.ctx, ast.Store)]
    if len(stores) != 1:
        return None
    d = parent(stores[0])
    if not (isinstance(d, (ast.Assign, ast.AnnAssign)) and d.value is not None and (d.target if isinstance(d, ast.AnnAssign) else d.targets[0]) is stores[0] and (isinstance(d, ast.AnnAssign) or len(d.targets) == 1)):
        return None
    later = _block_after(d)
    if later is None or not any(use is x for st in later for x in ast.walk(st)):
        return None
    free = {x.id for x in ast.walk(d.value) if isinstance(x, ast.Name)}
    for st in later:
        for x in ast.walk(st):
            if isinstance(x, ast.Name) and isinstance(x.ctx, (ast.Store, ast.Del)) and x.id in free:
                return None
        for _site, obj in _store_sites(st):
            if _root_name(obj) in free or _root_name(obj) == use.id:
                return None
    return d.value


def eval_tree(tree, atom_of, env: Dict[str, bool], fn: Optional[ast.AST] = None):
    def ev(e: ast.AST) -> bool:
        k = atom_of(e)
        if k is not None:
            if k not in env:
                raise AnalysisError(f"verdict test uses an atom outside the table: {ast.unparse(e)}")
            return env[k]
        if isinstance(e, ast.Name) and fn is not None:
            v = local_definition(fn, e)
            if v is not None:
                return ev(v)
        if isinstance(e, ast.UnaryOp) and isinstance(e.op, ast.Not):
            return not ev(e.operand)
        if isinstance(e, ast.BoolOp):
            vals = [ev(v) for v in e.values]
            return all(vals) if isinstance(e.op, ast.And) else any(vals)
        if isinstance(e, ast.Constant):
            return bool(e.value)
        if isinstance(e, ast.Call) and call_name(e) == "bool" and len(e.args) == 1:
            return ev(e.args[0])
        if isinstance(e, ast.Call) and call_name(e) == "len" and len(e.args) == 1:
            return ev(e.args[0])
        if isinstance(e, ast.Compare) and len(e.ops) == 1 and isinstance(e.comparators[0], ast.Constant):
            c, op = e.comparators[0].value, e.ops[0]
            if c == 0 and c is not False and isinstance(op, (ast.Gt, ast.NotEq)):
                return ev(e.left)
            if c == 0 and c is not False and isinstance(op, ast.Eq):
                return not ev(e.left)
            if c == 1 and c is not True and isinstance(op, ast.GtE):
                return ev(e.left)
            if c is True and isinstance(op, (ast.Is, ast.Eq)):
                return ev(e.left)
            if c is False and isinstance(op, (ast.Is, ast.Eq)):
                return not ev(e.left)
        key = "?" + ast.unparse(e)
        if key in env:
            return env[key]
        raise _NeedAtom(key)

    cur = tree
    while cur is not None and cur[0] == "if":
        cur = cur[2] if ev(cur[1]) else cur[3]
    return None if cur is None else cur[1]


class _NeedAtom(Exception):
    def __init__(self, key: str) -> None:
        super().__init__(key)
        self.key = key


def eval_all(tree, atom_of, env: Dict[str, bool], fn: Optional[ast.AST] = None) -> Tuple[List[str], List[object]]:
    """Verdicts of one table row for every value of the tests that are not atoms of the documented table
    (they are treated as free booleans: the documented verdict is a function of the table's atoms alone)."""
    extras: List[str] = []
    while True:
        try:
            out = []
            for vals in itertools.product([True, False], repeat=len(extras)):
                e2 = dict(env)
                e2.update(zip(extras, vals))
                out.append(eval_tree(tree, atom_of, e2, fn))
            return extras, out
        except _NeedAtom as need:
            if len(extras) >= 5:
                raise AnalysisError(f"verdict tests use too many conditions outside the table: {extras}")
            extras.append(need.key)


def _row_check(R: Report, rule: str, qual: str, label: str, want: str, extras: List[str], results: List[object], line: int) -> None:
    ok = all(r == want for r in results)
    distinct = sorted({repr(r) for r in results})
    dep = f" depending on {', '.join('`' + x[1:] + '`' for x in extras)}, which is not part of the documented decision table" if extras and len(distinct) > 1 else ""
    R.check(ok, rule, AGG, qual, f"{label} -> {want}", f"verdict is {' / '.join(distinct)}{dep}", line)


def _final_ctor(fn: ast.FunctionDef, cls_name: str) -> Tuple[ast.Call, ast.stmt]:
    """The verdict object built for a known aggregate: the constructor call whose status is not a literal."""
    out = []
    for c in calls_in(fn):
        if call_name(c) == cls_name or call_attr(c) == cls_name:
            s = kwarg(c, "status")
            if s is None:
                continue
            t = _tree_of_expr(s)
            if t[0] == "leaf" and not isinstance(t[1], _Unknown):
                continue
            out.append(c)
    if not out:
        allc = [c for c in calls_in(fn) if (call_name(c) == cls_name or call_attr(c) == cls_name) and kwarg(c, "status") is not None]
        if not allc:
            raise AnalysisError(f"{fn.name}: no {cls_name}(status=...) found")
        out = allc  # every verdict is a literal: the table rows decide whether that can be right
    c = out[-1]
    st = stmt_of(c)
    while parent(st) is not None and parent(st) is not fn:
        st = parent(st)
    return c, st


def run(repo: Repo, R: Report) -> None:
    try:
        _run(repo, R)
    except AnalysisError as exc:
        if not R.violations():
            raise
        # a located violation stands; the shape that could not be read afterwards is recorded with it
        R.note(f"analysis stopped after the reported violation(s): {exc}")


def _run(repo: Repo, R: Report) -> None:
    from ..normal import nfunc
    from .. import pat

    cls = repo.cls(AGG, CLS)
    fresh_methods = fresh_result_methods(cls)
    R.assume(
        "producer invariant (C06-D1/C09-D2): at most one pipeline_start / pipeline_end per run, one run_space_start / end per launch attempt, one SER per started node - the unique-per-key and last-writer stores commute under it",
        "prefixes of a real trace have seen the start record (it is the first record the runtime writes)",
    )
    R.undecided("that real traces' prefixes produce exactly these atoms (ties to the producer; decided structurally by C06)", "list order of finalize_all() (follows ingest order; not part of the per-run / per-launch verdicts)")

    r_store = R.rule("C13-D1-commutative-stores", "every store of the _ingest_* methods is a commutative merge: create-if-absent from the key only, flag, min/max, set add, counter, assign-if-present from a record type unique per key, or last-writer from a SER", 25)
    r_reg = R.rule("C13-D1-registered-aggregates", "an aggregate object that an _ingest_* method merges into is taken from a container of the aggregator or, when constructed on the spot, is stored into one on every path before the merge takes effect (otherwise the first record seen for a key is lost and the verdict depends on the ingest order)", 5)
    ingest_names = [n.name for n in cls.body if isinstance(n, FuncNode) and n.name.startswith("_ingest_")]
    if len(ingest_names) < 5:
        raise AnalysisError("fewer than five _ingest_* methods found")
    for name in ingest_names:
        fn = nfunc(repo, AGG, f"{CLS}.{name}")
        if len(fn.args.args) < 2:
            raise AnalysisError(f"{name}: record parameter not found")
        rec = fn.args.args[1].arg
        # key variables: locals assigned from record reads that are tested by the early `if not k: return`
        derived: Dict[str, ast.AST] = {}
        for n in walk_no_nested(fn):
            if isinstance(n, ast.Assign) and len(n.targets) == 1 and isinstance(n.targets[0], ast.Name):
                if _is_record_read(n.value, rec) or any(isinstance(x, ast.Name) and x.id in derived for x in ast.walk(n.value)):
                    derived[n.targets[0].id] = n.value
        key_vars: Set[str] = set()
        for st in fn.body:
            if isinstance(st, ast.If) and any(isinstance(x, ast.Return) for x in st.body):
                key_vars |= {x.id for x in ast.walk(st.test) if isinstance(x, ast.Name)}
        key_vars |= {k for k, v in derived.items() if isinstance(v, ast.Tuple)}
        # in pipeline_start the launch key is formed later
        for n in walk_no_nested(fn):
            if isinstance(n, ast.Assign) and isinstance(n.value, ast.Tuple) and len(n.targets) == 1 and isinstance(n.targets[0], ast.Name):
                if all(isinstance(e, ast.Name) and e.id in derived for e in n.value.elts):
                    key_vars.add(n.targets[0].id)
                    key_vars |= {e.id for e in n.value.elts}
        for n in walk_no_nested(fn):
            targets: List[ast.AST] = []
            if isinstance(n, ast.Assign):
                targets = [t for t in n.targets if isinstance(t, (ast.Attribute, ast.Subscript))]
            elif isinstance(n, ast.AugAssign) and isinstance(n.target, (ast.Attribute, ast.Subscript)):
                targets = [n.target]
            for t in targets:
                kind, detail = classify_store(fn, n, t, rec, key_vars, derived)
                ok = not kind.startswith("bad") and kind != "unclassified"
                R.check(ok, r_store, AGG, f"{CLS}.{name}", norm(n), detail if kind.startswith("bad") else f"store into {detail} is not one of the commutative merge forms: the aggregate depends on the order records are ingested", n.lineno, what_ok=kind)
            if isinstance(n, ast.Expr) and isinstance(n.value, ast.Call) and isinstance(n.value.func, ast.Attribute):
                m = n.value.func.attr
                if m in ("add", "update", "discard"):
                    R.ok(r_store, AGG, f"{CLS}.{name}", norm(n), "set-merge", n.lineno)
                elif m in ("append", "extend", "insert", "pop", "remove", "clear", "setdefault", "popitem"):
                    R.violation(r_store, AGG, f"{CLS}.{name}", norm(n), f"`{m}` on aggregate state is order-dependent / not a merge", n.lineno)
        for c in calls_in(fn):
            if isinstance(c.func, ast.Name) and c.func.id.endswith("Aggregate"):
                bad = bad_ctor_args(c, rec, key_vars)
                R.check(not bad, r_store, AGG, f"{CLS}.{name}", norm(c), bad, c.lineno, what_ok="constructed from its key only")
        check_registered(R, r_reg, fn, f"{CLS}.{name}", rec, fresh_methods)
    # every record type dispatched to its own ingest method
    ing = repo.func(AGG, f"{CLS}.ingest")
    wanted = {"run_space_start", "run_space_end", "pipeline_start", "pipeline_end", "ser"}
    got = {c.comparators[0].value for c in ast.walk(ing) if isinstance(c, ast.Compare) and isinstance(c.comparators[0], ast.Constant)}
    R.check(wanted <= got, r_store, AGG, f"{CLS}.ingest", "dispatch covers the five record types", f"record types {sorted(wanted - got)} are silently ignored by ingest()", ing.lineno)

    # ---------------------------------------------------------------- D2
    r_of = R.rule("C13-D2-order-free-verdicts", "completeness fields built from sets/dicts are sorted; finalisation writes into aggregator state (directly or through a local that aliases it) only idempotent min/max fall-backs", 5)
    r_tot = R.rule("C13-D2-total-on-partial-state", "a field of an aggregate that stays None until its record arrives is never ordered (<, >, sort / min / max key) without a None guard: every subset of records gets a verdict instead of a TypeError", 6)
    fr = nfunc(repo, AGG, f"{CLS}.finalize_run", keep=("_expected_nodes",))
    fl = nfunc(repo, AGG, f"{CLS}.finalize_launch", keep=("_expected_nodes",))
    fa = nfunc(repo, AGG, f"{CLS}.finalize_all", keep=("_expected_nodes",))
    ctor, ctor_stmt = _final_ctor(fr, "RunCompleteness")
    lctor, lctor_stmt = _final_ctor(fl, "LaunchCompleteness")
    for kw in ("missing_nodes", "orphan_nodes", "nonterminal_nodes"):
        v = kwarg(ctor, kw)
        if v is None:
            raise AnalysisError(f"finalize_run: RunCompleteness(...) has no {kw}=")
        vals = assigned_value(fr, v.id) if isinstance(v, ast.Name) else [v]
        def is_sorted(e):
            if isinstance(e, ast.IfExp):
                return is_sorted(e.body) and is_sorted(e.orelse)
            if isinstance(e, ast.List) and not e.elts:
                return True
            return isinstance(e, ast.Call) and call_attr(e) == "sorted"
        R.check(bool(vals) and all(is_sorted(x) for x in vals), r_of, AGG, f"{CLS}.finalize_run", f"{kw} is sorted(...)", f"{kw} inherits set/dict iteration order (depends on ingest order / hash seed)", ctor.lineno)
    for fn in (fr, fl, fa):
        state = _state_aliases(fn, {"self"}, fresh_methods)
        for st, obj in _store_sites(fn):
            root = _root_name(obj)
            if root is None or root not in state:
                continue
            stmt = st if isinstance(st, ast.stmt) else stmt_of(st)
            kind = "call"
            if isinstance(st, (ast.Assign, ast.AugAssign, ast.AnnAssign)) and isinstance(obj, ast.Attribute):
                kind, _detail = classify_store(fn, st, obj, "___", set(), {})
            via = "" if root == "self" else f" (`{root}` refers to aggregator state)"
            R.check(kind == "minmax", r_of, AGG, f"{CLS}.{fn.name}", norm(stmt), f"finalisation mutates aggregate state in a non-idempotent way{via}: finalising twice (or before/after more records) changes the verdict", getattr(stmt, "lineno", 0))
    opt = optional_fields(repo)
    if len(opt) < 8:
        raise AnalysisError("models.py: fewer Optional aggregate fields than confirmed by reading")
    for item in list(cls.body) + [n for n in repo.module(AGG).tree.body if isinstance(n, FuncNode)]:
        if isinstance(item, FuncNode):
            q = f"{CLS}.{item.name}" if item in cls.body else item.name
            check_total(R, r_tot, repo, item, q, opt)

    # ---------------------------------------------------------------- D3
    r_tab = R.rule("C13-D3-verdict-table", "run verdict: start&end -> complete, start&!end -> partial; launch verdict additionally complete only if no run is partial/invalid; problems name exactly the missing edge; missing = expected - observed, orphan = observed - expected, computed whenever the canonical spec is known", 14)
    # roles: the aggregate looked up, the observed-node set, the expected-node set, the roll-up counter
    m = pat.find1(fr, "_RUN_ = self._runs.get(_ID_)") or pat.find1(fr, "_RUN_ = self._runs[_ID_]") or pat.find1(fr, "_RUN_ = self.get_run(_ID_)")
    runv = pat.name_of(m[1], "_RUN_") if m else None
    if not runv:
        raise AnalysisError("finalize_run: lookup of the run aggregate (self._runs.get(..)) not found")
    m = pat.find1(fl, "_L_ = self._launches.get(_K_)") or pat.find1(fl, "_L_ = self._launches[_K_]") or pat.find1(fl, "_L_ = self.get_launch(_A_, _B_)")
    launchv = pat.name_of(m[1], "_L_") if m else None
    if not launchv:
        raise AnalysisError("finalize_launch: lookup of the launch aggregate (self._launches.get(..)) not found")
    obs_forms = {_d(_expr(s.replace("RUN", runv))) for s in ("RUN.nodes", "set(RUN.nodes)", "set(RUN.nodes.keys())", "RUN.nodes.keys()", "frozenset(RUN.nodes)", "frozenset(RUN.nodes.keys())", "{*RUN.nodes}", "set(RUN.nodes or ())")}
    obs_names = {n.targets[0].id for n in walk_no_nested(fr) if isinstance(n, ast.Assign) and len(n.targets) == 1 and isinstance(n.targets[0], ast.Name) and _d(n.value) in obs_forms and len(assigned_value(fr, n.targets[0].id)) == 1}
    obs_names |= {n.target.id for n in walk_no_nested(fr) if isinstance(n, ast.AnnAssign) and isinstance(n.target, ast.Name) and n.value is not None and _d(n.value) in obs_forms and len(assigned_value(fr, n.target.id)) == 1}
    exp_form = _d(_expr(f"_expected_nodes({runv}.pipeline_spec_canonical)"))
    exp_names = {n.targets[0].id for n in walk_no_nested(fr) if isinstance(n, ast.Assign) and len(n.targets) == 1 and isinstance(n.targets[0], ast.Name) and _d(n.value) == exp_form and len(assigned_value(fr, n.targets[0].id)) == 1}

    def is_obs(e: ast.AST) -> bool:
        return (isinstance(e, ast.Name) and e.id in obs_names) or _d(e) in obs_forms

    def is_exp(e: ast.AST) -> bool:
        return (isinstance(e, ast.Name) and e.id in exp_names) or _d(e) == exp_form

    d_start, d_end = _d(_expr(f"{runv}.saw_start")), _d(_expr(f"{runv}.saw_end"))

    def run_atom(e: ast.AST) -> Optional[str]:
        d = _d(e)
        return "start" if d == d_start else "end" if d == d_end else "obs" if is_obs(e) else None

    status_expr = kwarg(ctor, "status")
    tree = value_tree(fr, status_expr, ctor_stmt)
    tt: Dict[Tuple[bool, ...], object] = {}
    for row in itertools.product([True, False], repeat=3):
        extras, results = eval_all(tree, run_atom, dict(zip(("start", "end", "obs"), row)), fr)
        tt[row] = results[0] if len({repr(r) for r in results}) == 1 else "|".join(sorted({repr(r) for r in results}))
        s_, e_, o_ = row
        if s_:
            _row_check(R, r_tab, f"{CLS}.finalize_run", f"row start=1 end={int(e_)} observed={int(o_)}", "complete" if e_ else "partial", extras, results, fr.lineno)
    R.extra["run_verdict_table"] = {"".join("1" if b else "0" for b in k): repr(v) if isinstance(v, _Unknown) else v for k, v in tt.items()}

    # roll-up: counts come from finalize_run of each run in launch.pipelines, into a counter created by this call
    loops = [n for n in walk_no_nested(fl) if isinstance(n, ast.For) and _d(n.iter) in (_d(_expr(f"{launchv}.pipelines")), _d(_expr(f"sorted({launchv}.pipelines)")), _d(_expr(f"list({launchv}.pipelines)")))]
    counts_var: Optional[str] = None
    ok = False
    loop_stmt = "for run_id in launch.pipelines: counts[finalize_run(run_id).status] += 1"
    for lp in loops:
        if not isinstance(lp.target, ast.Name) or ok:
            continue
        it = lp.target.id
        verdict_of_run = _d(_expr(f"self.finalize_run({it})"))
        holders = {n.targets[0].id for n in walk_no_nested(lp) if isinstance(n, ast.Assign) and len(n.targets) == 1 and isinstance(n.targets[0], ast.Name) and _d(n.value) == verdict_of_run}
        incs = [n for n in walk_no_nested(lp) if isinstance(n, ast.AugAssign) and isinstance(n.op, ast.Add) and isinstance(n.value, ast.Constant) and n.value.value == 1 and isinstance(n.target, ast.Subscript) and isinstance(n.target.value, ast.Name)]
        good = []
        for inc in incs:
            k = inc.target.slice
            if isinstance(k, ast.Attribute) and k.attr == "status" and (_d(k.value) == verdict_of_run or (isinstance(k.value, ast.Name) and k.value.id in holders)):
                good.append(inc)
        unconditional = not any(isinstance(x, (ast.If, ast.IfExp, ast.Continue, ast.Break, ast.Try, ast.Return)) for x in ast.walk(lp))
        if len(good) == 1 and len(incs) == 1 and unconditional and not lp.orelse:
            counts_var = good[0].target.value.id
            ok = True
        elif incs and counts_var is None:
            counts_var = incs[0].target.value.id
    R.check(ok, r_tab, AGG, f"{CLS}.finalize_launch", loop_stmt, "launch roll-up does not count every run's own verdict", fl.lineno)
    if counts_var is not None:
        init = assigned_value(fl, counts_var)
        fresh = len(init) == 1 and isinstance(init[0], ast.Dict) and all(isinstance(v, ast.Constant) and v.value == 0 for v in init[0].values) and {k.value for k in init[0].keys if isinstance(k, ast.Constant)} == {"complete", "partial", "invalid"}
        fresh = fresh or (len(init) == 1 and isinstance(init[0], ast.Call) and call_name(init[0]) in ("Counter", "defaultdict") and not (init[0].args and call_name(init[0]) == "Counter"))
        R.check(fresh, r_tab, AGG, f"{CLS}.finalize_launch", "roll-up counter starts from zero in every finalisation", f"the roll-up counter `{counts_var}` is not a zeroed counter created by this call ({norm(init[0]) if init else 'no initialisation'}): counts of earlier finalisations leak into this one", fl.lineno)

    l_start, l_end, l_runs = (_d(_expr(f"{launchv}.{a}")) for a in ("saw_start", "saw_end", "pipelines"))

    def launch_atom(e: ast.AST) -> Optional[str]:
        d = _d(e)
        if d == l_start:
            return "start"
        if d == l_end:
            return "end"
        if d == l_runs:
            return "runs"
        if counts_var is not None:
            def count_of(x: ast.AST, lab: str) -> bool:
                return _d(x) in (_d(_expr(f"{counts_var}[{lab!r}]")), _d(_expr(f"{counts_var}.get({lab!r})")), _d(_expr(f"{counts_var}.get({lab!r}, 0)")))
            for lab in ("partial", "invalid", "complete"):
                if count_of(e, lab):
                    return lab
            if isinstance(e, ast.Compare) and len(e.ops) == 1 and isinstance(e.ops[0], ast.Eq):
                a, b = e.left, e.comparators[0]
                total = _d(_expr(f"len({launchv}.pipelines)"))
                if (count_of(a, "complete") and _d(b) == total) or (count_of(b, "complete") and _d(a) == total):
                    return "all_complete"
        return None

    ltree = value_tree(fl, kwarg(lctor, "status"), lctor_stmt)
    ltt: Dict[Tuple[bool, ...], object] = {}
    for row in itertools.product([True, False], repeat=5):
        s, e, runs, part, inv = row
        if (part or inv) and not runs:
            continue  # infeasible: a run verdict without runs
        env = dict(zip(("start", "end", "runs", "partial", "invalid"), row))
        env["all_complete"] = not (part or inv)  # counts['complete'] == number of runs
        extras, results = eval_all(ltree, launch_atom, env, fl)
        ltt[row] = results
        if s and e:
            want = "partial" if (part or inv) else "complete"
        elif s and not e:
            want = "partial"
        else:
            continue
        _row_check(R, r_tab, f"{CLS}.finalize_launch", f"row start={int(s)} end={int(e)} runs={int(runs)} partial={int(part)} invalid={int(inv)}", want, extras, results, fl.lineno)
    R.extra["launch_verdict_rows"] = len(ltt)
    # problems polarity
    for fn, base, call, names in ((fr, runv, ctor, {"saw_start": "missing_pipeline_start", "saw_end": "missing_pipeline_end"}), (fl, launchv, lctor, {"saw_start": "missing_run_space_start", "saw_end": "missing_run_space_end"})):
        pv = kwarg(call, "problems")
        for flag, label in names.items():
            found = False
            for n in walk_no_nested(fn):
                if isinstance(n, ast.If) and isinstance(n.test, ast.UnaryOp) and isinstance(n.test.op, ast.Not) and dotted_name(n.test.operand) == f"{base}.{flag}":
                    apps = [c for st in n.body for c in calls_in(st) if call_attr(c) == "append" and c.args and isinstance(c.args[0], ast.Constant) and _d(c.func.value) == _d(pv)]
                    if apps and apps[0].args[0].value == label and len(apps) == 1 and not n.orelse:
                        found = True
            R.check(found, r_tab, AGG, f"{CLS}.{fn.name}", f"if not <aggregate>.{flag}: problems.append({label!r})", f"the missing edge {label} is not named exactly when {flag} is false", fn.lineno)
    # set difference directions and guards
    for kw, (lf, rf, txt) in {"missing_nodes": (is_exp, is_obs, "expected - observed"), "orphan_nodes": (is_obs, is_exp, "observed - expected")}.items():
        v = kwarg(ctor, kw)
        defs: List[Tuple[ast.AST, ast.AST]] = [(n, n.value) for n in walk_no_nested(fr) if isinstance(n, (ast.Assign, ast.AnnAssign)) and n.value is not None and isinstance(v, ast.Name) and any(dotted_name(t) == v.id for t in (n.targets if isinstance(n, ast.Assign) else [n.target]))]
        if not isinstance(v, ast.Name):
            defs = [(ctor_stmt, v)]
        ok = False
        guard_ok = True
        for d, val in defs:
            subs = [b for b in ast.walk(val) if isinstance(b, ast.BinOp) and isinstance(b.op, ast.Sub)]
            ok = ok or any(lf(b.left) and rf(b.right) for b in subs)
            gtests: List[ast.AST] = [t for t, _pol in _guards(d, fr)]
            for e in ast.walk(val):
                if isinstance(e, ast.IfExp):
                    gtests.append(e.test)
            for t in gtests:
                for x in ast.walk(t):
                    if isinstance(x, ast.Name) and not is_exp(x) and x.id not in ("len", "bool"):
                        guard_ok = False
                    if isinstance(x, ast.Attribute) and _root_name(x) == runv and not x.attr == "pipeline_spec_canonical":
                        guard_ok = False
        R.check(ok, r_tab, AGG, f"{CLS}.finalize_run", f"{kw} = {txt}", f"{kw} is not the set difference {txt} (expected = _expected_nodes(<run>.pipeline_spec_canonical), observed = keys of <run>.nodes)", ctor.lineno)
        R.check(guard_ok, r_tab, AGG, f"{CLS}.finalize_run", f"{kw} computed whenever the canonical spec is known", f"{kw} is only computed under an extra condition (e.g. only when some SER was seen): a run cut right after pipeline_start reports no missing nodes", ctor.lineno)
    # observed = keys of run.nodes; expected from the stored canonical spec
    R.check(bool(obs_names) or any(_d(x) in obs_forms - {_d(_expr(f"{runv}.nodes"))} for x in ast.walk(fr)), r_tab, AGG, f"{CLS}.finalize_run", "observed_nodes = set(run.nodes)", "observed nodes are not the nodes with a SER", fr.lineno)
    R.check(bool(exp_names) or any(_d(x) == exp_form for x in ast.walk(fr)), r_tab, AGG, f"{CLS}.finalize_run", "expected from run.pipeline_spec_canonical", "expected nodes do not come from the run's canonical spec", fr.lineno)
    en = repo.func(AGG, "_expected_nodes")
    src = ast.unparse(en)
    R.check("node_uuid" in src and ".add(" in src and not any(isinstance(n, (ast.Break,)) for n in ast.walk(en)), r_tab, AGG, "_expected_nodes", "collects node_uuid of every canonical node", "expected-node extraction drops nodes", en.lineno)
