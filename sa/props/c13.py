"""C13 - trace aggregation is order-independent and right for every partial trace.

D1 every store of the ingest methods is a commutative merge (classified); aggregates are
   created from their key only, D2 verdict fields are order-free functions of merged state
   and finalisation is idempotent, D3 verdict decision tables / set-difference directions.
"""
from __future__ import annotations

import ast
import itertools
from typing import Dict, List, Optional, Set, Tuple

from ..engine import (
    AnalysisError,
    FuncNode,
    Repo,
    ancestors,
    assigned_value,
    call_attr,
    call_name,
    calls_in,
    dotted_name,
    kwarg,
    norm,
    stmt_of,
    walk_no_nested,
)
from ..report import Report

AGG = "semantiva/trace/aggregation/aggregator.py"
CLS = "TraceAggregator"
# record types that are unique per key by the producer's lifecycle (C06-D1 / C09-D2)
UNIQUE_PER_KEY = {"_ingest_pipeline_start", "_ingest_run_space_start", "_ingest_pipeline_end", "_ingest_run_space_end"}
SER_LAST_WRITER = {"last_seq", "last_status", "timing", "last_error"}


def _guards(node: ast.AST, stop: ast.AST) -> List[Tuple[ast.AST, bool]]:
    """(test, polarity) of the if-statements enclosing *node* up to *stop*."""
    out = []
    child = node
    for a in ancestors(node):
        if a is stop:
            break
        if isinstance(a, ast.If):
            in_body = any(child is s or any(child is x for x in ast.walk(s)) for s in a.body)
            out.append((a.test, in_body))
        child = a
    return out


def _is_record_read(e: ast.AST, rec: str) -> bool:
    """record.get("k") / (record.get("a") or {}).get("b") / record["k"] chains."""
    for n in ast.walk(e):
        if isinstance(n, ast.Name) and n.id == rec:
            return True
    return False


def classify_store(fn: ast.FunctionDef, st: ast.AST, target: ast.AST, rec: str, key_vars: Set[str], derived: Dict[str, ast.AST]) -> Tuple[str, str]:
    """Return (class, detail) for a store into an aggregate."""
    guards = _guards(st, fn)
    value = getattr(st, "value", None)
    tname = dotted_name(target) if not isinstance(target, ast.Subscript) else (dotted_name(target.value) or "") + "[...]"
    # create-if-absent: container[key] = fresh aggregate, guarded by `if not <x>` where x = container.get(key)
    if isinstance(target, ast.Subscript) and isinstance(value, ast.Name):
        ctor_defs = [v for v in assigned_value(fn, value.id) if isinstance(v, ast.Call) and not (call_attr(v) == "get")]
        absent_guard = any(pol and isinstance(t, ast.UnaryOp) and isinstance(t.op, ast.Not) and dotted_name(t.operand) == value.id for t, pol in guards) or any(
            pol and isinstance(t, ast.Compare) and isinstance(t.ops[0], ast.Is) and dotted_name(t.left) == value.id for t, pol in guards)
        if ctor_defs and absent_guard:
            for c in ctor_defs:
                argnames = {x.id for a in list(c.args) + [k.value for k in c.keywords] for x in ast.walk(a) if isinstance(x, ast.Name)}
                extra = argnames - key_vars
                reads_record = any(_is_record_read(a, rec) for a in list(c.args) + [k.value for k in c.keywords])
                if extra or reads_record:
                    return "bad-create", f"the aggregate is constructed from record fields other than its key ({sorted(extra) or 'record'}): they are kept only if this record happens to be the first one seen for the key"
            return "create-if-absent", tname
    # counter: x[k] = x.get(k, 0) + 1  /  x += 1
    if isinstance(st, ast.AugAssign) and isinstance(st.op, ast.Add):
        return "counter", tname
    if isinstance(value, ast.BinOp) and isinstance(value.op, ast.Add) and isinstance(value.right, ast.Constant) and isinstance(target, ast.Subscript):
        left = value.left
        if isinstance(left, ast.Call) and call_attr(left) == "get" and dotted_name(left.func.value) == dotted_name(target.value):
            return "counter", tname
    # flag := True
    if isinstance(value, ast.Constant) and value.value is True:
        return "flag", tname
    # min/max merge: guarded by (x is None or v < x) / (v > x)
    field = dotted_name(target)
    vname = dotted_name(value) if value is not None else None
    for t, pol in guards:
        if not pol:
            continue
        for cmp_ in [n for n in ast.walk(t) if isinstance(n, ast.Compare) and len(n.ops) == 1 and isinstance(n.ops[0], (ast.Lt, ast.Gt, ast.LtE, ast.GtE))]:
            l, r = dotted_name(cmp_.left), dotted_name(cmp_.comparators[0])
            if {l, r} == {vname, field} and vname is not None:
                none_alt = any(isinstance(c, ast.Compare) and isinstance(c.ops[0], ast.Is) and dotted_name(c.left) == field for c in ast.walk(t))
                return ("minmax", tname) if none_alt else ("bad-minmax", "min/max merge without the `is None` alternative")
    # assign-if-present from the record
    if value is not None and _is_record_read(value, rec) or (vname in derived):
        present = any(pol and (_is_record_read(t, rec) or any(isinstance(x, ast.Name) and x.id in derived for x in ast.walk(t))) for t, pol in guards)
        if fn.name == "_ingest_ser":
            attr = target.attr if isinstance(target, ast.Attribute) else ""
            if attr in SER_LAST_WRITER:
                return "last-writer-ser", tname
            return "bad-overwrite", "a SER field overwrites shared state unconditionally"
        if fn.name in UNIQUE_PER_KEY:
            return ("assign-if-present" if present else "assign-unique"), tname
    if fn.name == "_ingest_ser" and isinstance(target, ast.Attribute) and target.attr in SER_LAST_WRITER:
        return "last-writer-ser", tname
    return "unclassified", tname


def truth_table(tests: List[Tuple[Optional[ast.AST], str]], atoms: Dict[str, ast.AST], rows) -> Dict[Tuple[bool, ...], str]:
    """Evaluate an if/elif/else chain (test, result) over boolean atom assignments."""

    def ev(e: ast.AST, env: Dict[str, bool]) -> bool:
        d = ast.unparse(e)
        if d in env:
            return env[d]
        if isinstance(e, ast.UnaryOp) and isinstance(e.op, ast.Not):
            return not ev(e.operand, env)
        if isinstance(e, ast.BoolOp):
            vals = [ev(v, env) for v in e.values]
            return all(vals) if isinstance(e.op, ast.And) else any(vals)
        raise AnalysisError(f"verdict test uses an atom outside the table: {d}")

    out = {}
    names = list(atoms)
    for row in rows:
        env = {ast.unparse(atoms[n]): v for n, v in zip(names, row)}
        res = None
        for test, result in tests:
            if test is None or ev(test, env):
                res = result
                break
        out[tuple(row)] = res
    return out


def chain_of(fn: ast.FunctionDef, var: str) -> List[Tuple[Optional[ast.AST], object]]:
    """The if/elif/else chain that assigns *var* (nested chains are returned as sub-lists)."""
    def results(body: List[ast.stmt]):
        for st in body:
            if isinstance(st, (ast.Assign, ast.AnnAssign)):
                tgt = st.targets[0] if isinstance(st, ast.Assign) else st.target
                if dotted_name(tgt) == var and st.value is not None and isinstance(st.value, ast.Constant):
                    return st.value.value
            if isinstance(st, ast.If):
                sub = build(st)
                if sub:
                    return sub
        return None

    def build(node: ast.If):
        chain = []
        cur: Optional[ast.If] = node
        while cur is not None:
            r = results(cur.body)
            if r is None:
                return None
            chain.append((cur.test, r))
            if len(cur.orelse) == 1 and isinstance(cur.orelse[0], ast.If):
                cur = cur.orelse[0]
            else:
                if cur.orelse:
                    r = results(cur.orelse)
                    if r is None:
                        return None
                    chain.append((None, r))
                cur = None
        return chain

    for st in fn.body:
        if isinstance(st, ast.If):
            c = build(st)
            if c:
                return c
    raise AnalysisError(f"{fn.name}: if/elif chain assigning {var} not found")


def flatten_chain(chain, prefix: Optional[List[ast.AST]] = None) -> List[Tuple[Optional[ast.AST], str]]:
    """Flatten nested chains into (conjunction test, result) in order."""
    out = []
    negs: List[ast.AST] = []
    for test, res in chain:
        conds = list(prefix or []) + [ast.UnaryOp(op=ast.Not(), operand=n) for n in negs]
        if test is not None:
            conds.append(test)
        if isinstance(res, list):
            out.extend(flatten_chain(res, conds))
        else:
            t = None if not conds else (conds[0] if len(conds) == 1 else ast.BoolOp(op=ast.And(), values=conds))
            out.append((t, res))
        if test is not None:
            negs.append(test)
    return out


def run(repo: Repo, R: Report) -> None:
    cls = repo.cls(AGG, CLS)
    R.assume(
        "producer invariant (C06-D1/C09-D2): at most one pipeline_start / pipeline_end per run, one run_space_start / end per launch attempt, one SER per started node - the unique-per-key and last-writer stores commute under it",
        "prefixes of a real trace have seen the start record (it is the first record the runtime writes)",
    )
    R.undecided("that real traces' prefixes produce exactly these atoms (ties to the producer; decided structurally by C06)", "list order of finalize_all() (follows ingest order; not part of the per-run / per-launch verdicts)")

    r_store = R.rule("C13-D1-commutative-stores", "every store of the _ingest_* methods is a commutative merge: create-if-absent from the key only, flag, min/max, set add, counter, assign-if-present from a record type unique per key, or last-writer from a SER", 25)
    ingest = [n for n in cls.body if isinstance(n, FuncNode) and n.name.startswith("_ingest_")]
    if len(ingest) < 5:
        raise AnalysisError("fewer than five _ingest_* methods found")
    for fn in ingest:
        rec = fn.args.args[1].arg
        # key variables: locals assigned from record reads that are tested by the early `if not k: return`
        derived: Dict[str, ast.AST] = {}
        for n in walk_no_nested(fn):
            if isinstance(n, ast.Assign) and len(n.targets) == 1 and isinstance(n.targets[0], ast.Name):
                if _is_record_read(n.value, rec) or any(isinstance(x, ast.Name) and x.id in derived for x in ast.walk(n.value)):
                    derived[n.targets[0].id] = n.value
        key_vars: Set[str] = set()
        for st in fn.body:
            if isinstance(st, ast.If) and any(isinstance(x, ast.Return) for x in st.body):
                key_vars |= {x.id for x in ast.walk(st.test) if isinstance(x, ast.Name)}
        key_vars |= {k for k, v in derived.items() if isinstance(v, ast.Tuple)}
        # in pipeline_start the launch key is formed later
        for n in walk_no_nested(fn):
            if isinstance(n, ast.Assign) and isinstance(n.value, ast.Tuple) and len(n.targets) == 1 and isinstance(n.targets[0], ast.Name):
                if all(isinstance(e, ast.Name) and e.id in derived for e in n.value.elts):
                    key_vars.add(n.targets[0].id)
                    key_vars |= {e.id for e in n.value.elts}
        for n in walk_no_nested(fn):
            targets: List[ast.AST] = []
            if isinstance(n, ast.Assign):
                targets = [t for t in n.targets if isinstance(t, (ast.Attribute, ast.Subscript))]
            elif isinstance(n, ast.AugAssign) and isinstance(n.target, (ast.Attribute, ast.Subscript)):
                targets = [n.target]
            for t in targets:
                kind, detail = classify_store(fn, n, t, rec, key_vars, derived)
                ok = not kind.startswith("bad") and kind != "unclassified"
                R.check(ok, r_store, AGG, f"{CLS}.{fn.name}", norm(n), detail if kind.startswith("bad") else f"store into {detail} is not one of the commutative merge forms: the aggregate depends on the order records are ingested", n.lineno, what_ok=kind)
            if isinstance(n, ast.Expr) and isinstance(n.value, ast.Call) and isinstance(n.value.func, ast.Attribute):
                m = n.value.func.attr
                if m in ("add", "update", "discard"):
                    R.ok(r_store, AGG, f"{CLS}.{fn.name}", norm(n), "set-merge", n.lineno)
                elif m in ("append", "extend", "insert", "pop", "remove", "clear", "setdefault", "popitem"):
                    R.violation(r_store, AGG, f"{CLS}.{fn.name}", norm(n), f"`{m}` on aggregate state is order-dependent / not a merge", n.lineno)
    # every record type dispatched to its own ingest method
    ing = repo.func(AGG, f"{CLS}.ingest")
    wanted = {"run_space_start", "run_space_end", "pipeline_start", "pipeline_end", "ser"}
    got = {c.comparators[0].value for c in ast.walk(ing) if isinstance(c, ast.Compare) and isinstance(c.comparators[0], ast.Constant)}
    R.check(wanted <= got, r_store, AGG, f"{CLS}.ingest", "dispatch covers the five record types", f"record types {sorted(wanted - got)} are silently ignored by ingest()", ing.lineno)

    # ---------------------------------------------------------------- D2
    r_of = R.rule("C13-D2-order-free-verdicts", "completeness fields built from sets/dicts are sorted; finalisation writes only idempotent min/max fall-backs", 5)
    fr = repo.func(AGG, f"{CLS}.finalize_run")
    fl = repo.func(AGG, f"{CLS}.finalize_launch")
    ctor = [c for c in calls_in(fr) if call_attr(c) == "RunCompleteness"][-1]
    for kw in ("missing_nodes", "orphan_nodes", "nonterminal_nodes"):
        v = kwarg(ctor, kw)
        vals = assigned_value(fr, v.id) if isinstance(v, ast.Name) else [v]
        def is_sorted(e):
            if isinstance(e, ast.IfExp):
                return is_sorted(e.body) and is_sorted(e.orelse)
            if isinstance(e, ast.List) and not e.elts:
                return True
            return isinstance(e, ast.Call) and call_attr(e) == "sorted"
        R.check(bool(vals) and all(is_sorted(x) for x in vals), r_of, AGG, f"{CLS}.finalize_run", f"{kw} is sorted(...)", f"{kw} inherits set/dict iteration order (depends on ingest order / hash seed)", ctor.lineno)
    for fn in (fr, fl):
        for n in walk_no_nested(fn):
            tgts = n.targets if isinstance(n, ast.Assign) else [n.target] if isinstance(n, ast.AugAssign) else []
            for t in tgts:
                if isinstance(t, ast.Attribute) and isinstance(t.value, ast.Name) and t.value.id in ("run", "launch", "node"):
                    kind, detail = classify_store(fn, n, t, "___", set(), {})
                    R.check(kind == "minmax", r_of, AGG, f"{CLS}.{fn.name}", norm(n), "finalisation mutates aggregate state in a non-idempotent way: finalising twice (or before/after more records) changes the verdict", n.lineno)
    # ---------------------------------------------------------------- D3
    r_tab = R.rule("C13-D3-verdict-table", "run verdict: start&end -> complete, start&!end -> partial; launch verdict additionally complete only if no run is partial/invalid; problems name exactly the missing edge; missing = expected - observed, orphan = observed - expected, computed whenever the canonical spec is known", 14)
    obs = "observed_nodes"
    atoms = {"start": ast.parse("run.saw_start", mode="eval").body, "end": ast.parse("run.saw_end", mode="eval").body, "obs": ast.parse(obs, mode="eval").body}
    chain = flatten_chain(chain_of(fr, "status_val"))
    rows = list(itertools.product([True, False], repeat=3))
    tt = truth_table(chain, atoms, rows)
    for o in (True, False):
        R.check(tt[(True, True, o)] == "complete", r_tab, AGG, f"{CLS}.finalize_run", f"row start=1 end=1 observed={int(o)} -> complete", f"verdict is {tt[(True, True, o)]!r}", fr.lineno)
        R.check(tt[(True, False, o)] == "partial", r_tab, AGG, f"{CLS}.finalize_run", f"row start=1 end=0 observed={int(o)} -> partial", f"verdict is {tt[(True, False, o)]!r}", fr.lineno)
    R.extra["run_verdict_table"] = {"".join("1" if b else "0" for b in k): v for k, v in tt.items()}
    latoms = {
        "start": ast.parse("launch.saw_start", mode="eval").body,
        "end": ast.parse("launch.saw_end", mode="eval").body,
        "runs": ast.parse("launch.pipelines", mode="eval").body,
        "partial": ast.parse("run_status_counts['partial']", mode="eval").body,
        "invalid": ast.parse("run_status_counts['invalid']", mode="eval").body,
    }
    lchain = flatten_chain(chain_of(fl, "status_val"))
    lrows = list(itertools.product([True, False], repeat=5))
    ltt = truth_table(lchain, latoms, lrows)
    for row, res in ltt.items():
        s, e, runs, part, inv = row
        if (part or inv) and not runs:
            continue  # infeasible: a run verdict without runs
        if s and e:
            want = "partial" if (part or inv) else "complete"
        elif s and not e:
            want = "partial"
        else:
            continue
        R.check(res == want, r_tab, AGG, f"{CLS}.finalize_launch", f"row start={int(s)} end={int(e)} runs={int(runs)} partial={int(part)} invalid={int(inv)} -> {want}", f"verdict is {res!r}", fl.lineno)
    R.extra["launch_verdict_rows"] = len(ltt)
    # problems polarity
    for fn, flagbase, names in ((fr, "run", {"saw_start": "missing_pipeline_start", "saw_end": "missing_pipeline_end"}), (fl, "launch", {"saw_start": "missing_run_space_start", "saw_end": "missing_run_space_end"})):
        for flag, label in names.items():
            found = False
            for n in walk_no_nested(fn):
                if isinstance(n, ast.If) and isinstance(n.test, ast.UnaryOp) and isinstance(n.test.op, ast.Not) and dotted_name(n.test.operand) == f"{flagbase}.{flag}":
                    apps = [c for st in n.body for c in calls_in(st) if call_attr(c) == "append" and c.args and isinstance(c.args[0], ast.Constant)]
                    if apps and apps[0].args[0].value == label and not n.orelse:
                        found = True
            R.check(found, r_tab, AGG, f"{CLS}.{fn.name}", f"if not {flagbase}.{flag}: problems.append({label!r})", f"the missing edge {label} is not named exactly when {flag} is false", fn.lineno)
    # set difference directions and guards
    exp_var = next((n.targets[0].id for n in walk_no_nested(fr) if isinstance(n, ast.Assign) and isinstance(n.value, ast.Call) and call_attr(n.value) == "_expected_nodes"), None)
    if exp_var is None:
        raise AnalysisError("finalize_run: expected-node set not found")
    for kw, (l, r) in {"missing_nodes": (exp_var, obs), "orphan_nodes": (obs, exp_var)}.items():
        v = kwarg(ctor, kw)
        defs = [n for n in walk_no_nested(fr) if isinstance(n, ast.Assign) and isinstance(v, ast.Name) and any(dotted_name(t) == v.id for t in n.targets)]
        ok = False
        guard_ok = True
        for d in defs:
            subs = [b for b in ast.walk(d.value) if isinstance(b, ast.BinOp) and isinstance(b.op, ast.Sub)]
            ok = ok or any(dotted_name(b.left) == l and dotted_name(b.right) == r for b in subs)
            gnames: Set[str] = set()
            for t, _pol in _guards(d, fr):
                gnames |= {x.id for x in ast.walk(t) if isinstance(x, ast.Name)}
            for e in ast.walk(d.value):
                if isinstance(e, ast.IfExp):
                    gnames |= {x.id for x in ast.walk(e.test) if isinstance(x, ast.Name)}
            if gnames - {exp_var}:
                guard_ok = False
        R.check(ok, r_tab, AGG, f"{CLS}.finalize_run", f"{kw} = {l} - {r}", f"{kw} is not the set difference {l} - {r}", ctor.lineno)
        R.check(guard_ok, r_tab, AGG, f"{CLS}.finalize_run", f"{kw} computed whenever the canonical spec is known", f"{kw} is only computed under an extra condition (e.g. only when some SER was seen): a run cut right after pipeline_start reports no missing nodes", ctor.lineno)
    # observed = keys of run.nodes; expected from the stored canonical spec
    ov = assigned_value(fr, obs)
    R.check(bool(ov) and "run.nodes" in ast.unparse(ov[0]), r_tab, AGG, f"{CLS}.finalize_run", "observed_nodes = set(run.nodes)", "observed nodes are not the nodes with a SER", fr.lineno)
    ev = [n.value for n in walk_no_nested(fr) if isinstance(n, ast.Assign) and dotted_name(n.targets[0]) == exp_var]
    R.check(bool(ev) and "run.pipeline_spec_canonical" in ast.unparse(ev[0]), r_tab, AGG, f"{CLS}.finalize_run", "expected from run.pipeline_spec_canonical", "expected nodes do not come from the run's canonical spec", fr.lineno)
    en = repo.func(AGG, "_expected_nodes")
    src = ast.unparse(en)
    R.check("node_uuid" in src and ".add(" in src and not any(isinstance(n, (ast.Break,)) for n in ast.walk(en)), r_tab, AGG, "_expected_nodes", "collects node_uuid of every canonical node", "expected-node extraction drops nodes", en.lineno)
    # roll-up: counts come from finalize_run of each run in launch.pipelines
    loops = [n for n in walk_no_nested(fl) if isinstance(n, ast.For) and dotted_name(n.iter) == "launch.pipelines"]
    ok = False
    if loops:
        body = ast.unparse(loops[0])
        ok = "self.finalize_run(" in body and "+= 1" in body and ".status" in body and not any(isinstance(x, (ast.If, ast.Continue, ast.Break)) for x in ast.walk(loops[0]))
    R.check(ok, r_tab, AGG, f"{CLS}.finalize_launch", "for run_id in launch.pipelines: counts[finalize_run(run_id).status] += 1", "launch roll-up does not count every run's own verdict", fl.lineno)
