"""Semantics-preserving normal form of one function, so that rules see through the usual behaviour-neutral
refactors instead of matching one spelling of the code:

  N0 match    `match` statements whose cases bind no name become if / elif chains.
  N1 inline   calls to private same-module helpers are replaced by the helper body (parameters substituted,
              helper locals renamed, early returns turned into if/else so that every return is a tail return);
              helpers a rule knows by name (``keep``) stay calls.
  N2 consts   loads of module-level names bound once to a literal and never mutated are replaced by the literal.
  N3 copyprop locals assigned exactly once to a pure expression are substituted into their uses (named
              sub-conditions, named arguments, aliases); never across a try boundary when the value may raise,
              never when the read object is mutated afterwards, fresh containers only into a single use.
  N4 ifexp    ``if c: S(a) else: S(b)`` with S the same assignment / call / return becomes ``S(a if c else b)``.
  N5 loops    ``acc = []; for ..: [if ..:] acc.append(e)`` becomes a comprehension (opt-in).
  N6 deep     (opt-in) helpers returning from inside try/except or from a search loop are inlined too (for..else + break).

The result is a detached copy grafted under the original parent, so qualname_of / enclosing_class /
Repo.module_of keep working; line numbers of moved code are those of where it was written."""
from __future__ import annotations

import ast
from typing import Dict, Iterable, Iterator, List, Optional, Sequence, Set, Tuple

from .engine import FuncNode, Module, Repo, _attach_parents, dotted_name, enclosing_class, parent

PURE_BUILTINS = {"type", "len", "str", "int", "float", "bool", "isinstance", "issubclass", "getattr", "hasattr", "repr", "min", "max", "abs", "id", "callable", "bytes"}
FRESH_BUILTINS = {"list", "dict", "set", "tuple", "frozenset", "sorted"}
PURE_METHODS = {"encode", "decode", "format", "get", "keys", "values", "items", "lower", "upper", "strip", "lstrip", "rstrip", "replace", "startswith", "endswith", "join", "hexdigest", "as_uri", "split", "as_posix"}
PURE_MODULE_CALLS = {"hashlib.sha256", "hashlib.sha1", "hashlib.md5", "json.dumps", "os.path.join", "str.join"}


def clone(node):
    """Deep copy of an AST without parent links."""
    if isinstance(node, ast.AST):
        new = node.__class__()
        for f in node._fields:
            if hasattr(node, f):
                setattr(new, f, clone(getattr(node, f)))
        for a in node._attributes:
            if hasattr(node, a):
                setattr(new, a, getattr(node, a))
        return new
    if isinstance(node, list):
        return [clone(x) for x in node]
    return node


def _walk_no_defs(node: ast.AST, include_lambda: bool = True) -> Iterator[ast.AST]:
    todo = [node]
    first = True
    while todo:
        n = todo.pop()
        if not first and isinstance(n, FuncNode + (ast.ClassDef,)):
            continue
        if not first and not include_lambda and isinstance(n, ast.Lambda):
            continue
        first = False
        yield n
        todo.extend(ast.iter_child_nodes(n))


def _blocks(fn: ast.AST) -> Iterator[List[ast.stmt]]:
    """Every statement list of *fn* (not of nested defs)."""
    for n in _walk_no_defs(fn):
        for f in ("body", "orelse", "finalbody"):
            b = getattr(n, f, None)
            if isinstance(b, list) and b and isinstance(b[0], ast.stmt):
                yield b
        if isinstance(n, ast.Try):
            for h in n.handlers:
                yield h.body
        if isinstance(n, ast.Match):
            for c in n.cases:
                yield c.body


class _Subst(ast.NodeTransformer):
    def __init__(self, mapping: Dict[str, ast.AST]):
        self.mapping = mapping

    def visit_Name(self, node: ast.Name):
        if isinstance(node.ctx, ast.Load) and node.id in self.mapping:
            new = clone(self.mapping[node.id])
            return new
        return node

    def visit_FunctionDef(self, node):  # closures read the same names: substitute too
        self.generic_visit(node)
        return node


def _stored_names(node: ast.AST) -> Set[str]:
    out: Set[str] = set()
    for n in ast.walk(node):
        if isinstance(n, ast.Name) and isinstance(n.ctx, (ast.Store, ast.Del)):
            out.add(n.id)
        elif isinstance(n, ast.ExceptHandler) and n.name:
            out.add(n.name)
        elif isinstance(n, (ast.FunctionDef, ast.AsyncFunctionDef, ast.ClassDef)) and n is not node:
            out.add(n.name)
        elif isinstance(n, ast.alias):
            out.add((n.asname or n.name).split(".")[0])
    return out


def _params(fn: ast.AST) -> List[str]:
    a = fn.args
    out = [x.arg for x in a.posonlyargs + a.args + a.kwonlyargs]
    if a.vararg:
        out.append(a.vararg.arg)
    if a.kwarg:
        out.append(a.kwarg.arg)
    return out


# ---------------------------------------------------------------------------------------------------------
# N0 match statements -> if / elif chains
# ---------------------------------------------------------------------------------------------------------

def _lower_match(fn: ast.AST) -> None:
    """`match s: case A: .. case B: ..` becomes `if <A test>: .. elif <B test>: ..` when no case binds a name (value,
    singleton, `|`, `_`, bare class patterns, guards); other match statements are left alone."""
    from .cfg import match_case_test

    def binds(p: ast.AST) -> bool:
        return any(type(x).__name__ in ("MatchAs", "MatchStar", "MatchMapping") and getattr(x, "name", None) or (type(x).__name__ == "MatchMapping" and getattr(x, "rest", None)) for x in ast.walk(p))

    counter = [0]
    changed = True
    while changed:
        changed = False
        for block in _blocks(fn):
            for i, st in enumerate(block):
                if type(st).__name__ != "Match":
                    continue
                if any(binds(c.pattern) for c in st.cases):
                    continue
                prologue: List[ast.stmt] = []
                subject = st.subject
                if not isinstance(subject, (ast.Name, ast.Attribute, ast.Constant)):
                    counter[0] += 1
                    tmp = f"_m{counter[0]}_subject"
                    asg = ast.Assign(targets=[ast.Name(id=tmp, ctx=ast.Store())], value=subject)
                    ast.copy_location(asg, st)
                    prologue.append(asg)
                    subject = ast.copy_location(ast.Name(id=tmp, ctx=ast.Load()), st.subject)
                tests = [match_case_test(clone(subject), c) for c in st.cases]
                if any(isinstance(x, ast.Call) and isinstance(x.func, ast.Name) and x.func.id == "__match__" for t in tests for x in ast.walk(t)):
                    continue
                chain: List[ast.stmt] = []
                for test, c in reversed(list(zip(tests, st.cases))):
                    if isinstance(test, ast.Constant) and test.value is True:
                        chain = list(c.body)
                    else:
                        node = ast.If(test=test, body=list(c.body), orelse=chain)
                        ast.copy_location(node, c.pattern)
                        chain = [node]
                block[i:i + 1] = prologue + (chain or [ast.copy_location(ast.Pass(), st)])
                changed = True
                break
            if changed:
                break
    ast.fix_missing_locations(fn)


# ---------------------------------------------------------------------------------------------------------
# N1 helper inlining
# ---------------------------------------------------------------------------------------------------------

def _contains_return(node) -> bool:
    nodes = node if isinstance(node, list) else [node]
    for n in nodes:
        for x in _walk_no_defs(n):
            if isinstance(x, ast.Return):
                return True
    return False


def _always_returns(stmts: Sequence[ast.stmt]) -> bool:
    if not stmts:
        return False
    last = stmts[-1]
    if isinstance(last, (ast.Return, ast.Raise)):
        return True
    if isinstance(last, ast.If):
        return _always_returns(last.body) and _always_returns(last.orelse)
    if isinstance(last, ast.With):
        return _always_returns(last.body)
    if isinstance(last, ast.Try) and not last.orelse and not _contains_return(last.finalbody):
        return _always_returns(last.body) and bool(last.handlers) and all(_always_returns(h.body) for h in last.handlers)
    return False


def _own_breaks(loop: ast.AST) -> bool:
    """True when *loop* contains a break/continue-else interaction of its own (a `break` that belongs to it)."""
    todo = list(loop.body)
    while todo:
        n = todo.pop()
        if isinstance(n, ast.Break):
            return True
        if isinstance(n, (ast.For, ast.While, ast.AsyncFor) + FuncNode + (ast.ClassDef, ast.Lambda)):
            continue
        todo.extend(ast.iter_child_nodes(n))
    return False


def _returns_only_in_own_body(loop: ast.AST) -> bool:
    """Every Return inside *loop* sits in the loop's own body (not inside a nested loop / try-finally / with)."""
    def ok(stmts) -> bool:
        for st in stmts:
            if isinstance(st, ast.Return):
                continue
            if isinstance(st, ast.If):
                if not (ok(st.body) and ok(st.orelse)):
                    return False
            elif _contains_return(st):
                return False
        return True
    return ok(loop.body)


_DEEP = [False]  # set by normalize(deep=True): also rewrite returns inside try/except and search loops


def _tailify(stmts: List[ast.stmt], budget: List[int]) -> Optional[List[ast.stmt]]:
    """Rewrite so that every Return is in tail position (early returns become if/else); None if impossible."""
    out: List[ast.stmt] = []
    for i, st in enumerate(stmts):
        if isinstance(st, ast.Return):
            out.append(st)
            return out
        if isinstance(st, ast.If) and _contains_return(st):
            rest = stmts[i + 1:]
            new_branches = []
            for br in (st.body, st.orelse):
                if _always_returns(br) or not rest:
                    nb = _tailify(br, budget)
                else:
                    budget[0] -= len(rest)
                    if budget[0] < 0:
                        return None
                    nb = _tailify(list(br) + clone(rest), budget)
                if nb is None:
                    return None
                new_branches.append(nb)
            new = ast.If(test=st.test, body=new_branches[0] or [ast.Pass()], orelse=new_branches[1])
            ast.copy_location(new, st)
            out.append(new)
            return out
        if isinstance(st, ast.With) and _contains_return(st):
            # ``with lock: ... return x`` in tail position: the returns stay inside the with block
            rest = stmts[i + 1:]
            body = _tailify(st.body, budget)
            if body is None or (rest and not _always_returns(body)):
                return None
            new = ast.With(items=st.items, body=body)
            ast.copy_location(new, st)
            out.append(new)
            return out
        if _DEEP[0] and isinstance(st, ast.Try) and _contains_return(st):
            # try/except whose parts return, in tail position: the returns stay inside the try statement
            rest = stmts[i + 1:]
            if st.orelse or _contains_return(st.finalbody):
                return None
            body = _tailify(st.body, budget)
            hbodies = [_tailify(h.body, budget) for h in st.handlers]
            if body is None or any(h is None for h in hbodies):
                return None
            if rest and not (_always_returns(body) and hbodies and all(_always_returns(h) for h in hbodies)):
                return None
            new = ast.Try(body=body, handlers=[ast.copy_location(ast.ExceptHandler(type=h.type, name=h.name, body=hb or [ast.Pass()]), h) for h, hb in zip(st.handlers, hbodies)], orelse=[], finalbody=st.finalbody)
            ast.copy_location(new, st)
            out.append(new)
            return out
        if _DEEP[0] and isinstance(st, ast.For) and _contains_return(st) and not st.orelse and not _own_breaks(st) and _returns_only_in_own_body(st):
            # search loop: ``for x in xs: if p(x): return x`` + rest  ->  the returns become (result; break) and the
            # rest moves into the loop's else clause (_finish does the rewriting; marked here)
            rest = _tailify(stmts[i + 1:], budget)
            if rest is None:
                return None
            new = ast.For(target=st.target, iter=st.iter, body=st.body, orelse=rest, type_comment=None)
            ast.copy_location(new, st)
            new._search_loop = True  # type: ignore[attr-defined]
            out.append(new)
            return out
        if _contains_return(st):
            return None
        out.append(st)
    return out


def _finish(stmts: List[ast.stmt], make, fall) -> List[ast.stmt]:
    """Replace tail returns by ``make(value)`` and add ``fall()`` on paths that run off the end."""
    if stmts and isinstance(stmts[-1], ast.Return):
        r = stmts[-1]
        return stmts[:-1] + make(r.value, r)
    if stmts and isinstance(stmts[-1], ast.If) and _contains_return(stmts[-1]):
        st = stmts[-1]
        st.body = _finish(st.body, make, fall) or [ast.copy_location(ast.Pass(), st)]
        st.orelse = _finish(st.orelse, make, fall)
        return stmts
    if stmts and isinstance(stmts[-1], ast.With) and _contains_return(stmts[-1]):
        st = stmts[-1]
        st.body = _finish(st.body, make, fall) or [ast.copy_location(ast.Pass(), st)]
        return stmts
    if stmts and isinstance(stmts[-1], ast.Try) and _contains_return(stmts[-1]):
        st = stmts[-1]
        st.body = _finish(st.body, make, fall) or [ast.copy_location(ast.Pass(), st)]
        for h in st.handlers:
            h.body = _finish(h.body, make, fall) or [ast.copy_location(ast.Pass(), h)]
        return stmts
    if stmts and isinstance(stmts[-1], ast.For) and getattr(stmts[-1], "_search_loop", False):
        st = stmts[-1]

        def in_loop(body: List[ast.stmt]) -> List[ast.stmt]:
            out: List[ast.stmt] = []
            for x in body:
                if isinstance(x, ast.Return):
                    out.extend(make(x.value, x))
                    out.append(ast.copy_location(ast.Break(), x))
                    return out
                if isinstance(x, ast.If):
                    x.body = in_loop(x.body) or [ast.copy_location(ast.Pass(), x)]
                    x.orelse = in_loop(x.orelse)
                out.append(x)
            return out

        st.body = in_loop(st.body) or [ast.copy_location(ast.Pass(), st)]
        st.orelse = _finish(st.orelse, make, fall)
        return stmts
    if stmts and isinstance(stmts[-1], ast.Raise):
        return stmts
    return stmts + fall()


class _Inliner:
    def __init__(self, repo: Repo, mod: Module, root: ast.AST, keep: Iterable[str], max_stmts: int = 60):
        self.repo, self.mod, self.root = repo, mod, root
        self.keep = set(keep)
        self.max_stmts = max_stmts
        self.counter = 0
        self.inlined: List[str] = []

    # -- eligibility ------------------------------------------------------------------------------
    def helper_of(self, call: ast.Call) -> Optional[Tuple[ast.FunctionDef, Optional[ast.AST]]]:
        """(helper def, receiver expr or None) when *call* can be inlined."""
        f = call.func
        name = f.id if isinstance(f, ast.Name) else f.attr if isinstance(f, ast.Attribute) else None
        if name is None or not name.startswith("_") or name.startswith("__") or name in self.keep:
            return None
        try:
            targets = self.repo.resolve_call(self.mod, call)
        except Exception:
            return None
        if len(targets) != 1:
            return None
        hmod, h = targets[0]
        if hmod is not self.mod or not isinstance(h, ast.FunctionDef) or h.name != name:
            return None
        if any(isinstance(a, ast.Starred) for a in call.args) or any(k.arg is None for k in call.keywords):
            return None
        if h.args.vararg or h.args.kwarg:
            return None
        deco = [dotted_name(d) for d in h.decorator_list]
        if any(d not in ("staticmethod",) for d in deco):
            return None
        n_stmts = 0
        for x in ast.walk(h):
            if isinstance(x, (ast.Yield, ast.YieldFrom, ast.Await, ast.Global, ast.Nonlocal, ast.ClassDef)) or (isinstance(x, FuncNode) and x is not h):
                return None
            if isinstance(x, ast.Call) and (dotted_name(x.func) or "").split(".")[-1] == h.name:
                return None
            if isinstance(x, ast.stmt):
                n_stmts += 1
        if n_stmts > self.max_stmts:
            return None
        # the function being normalised must not be the helper itself
        r = self.root
        if getattr(r, "name", None) == h.name and getattr(r, "lineno", None) == h.lineno:
            return None
        recv = None
        pcls = parent(h)
        if isinstance(pcls, ast.ClassDef):
            if "staticmethod" in deco:
                recv = None
            else:
                if not (isinstance(f, ast.Attribute) and isinstance(f.value, ast.Name) and f.value.id == "self"):
                    return None
                recv = f.value
        elif not isinstance(pcls, ast.Module):
            return None  # nested closure: free variables would change scope
        return h, recv

    def bind(self, h: ast.FunctionDef, recv: Optional[ast.AST], call: ast.Call) -> Optional[Dict[str, ast.AST]]:
        a = h.args
        pos = list(a.posonlyargs + a.args)
        binding: Dict[str, ast.AST] = {}
        if recv is not None:
            if not pos:
                return None
            binding[pos[0].arg] = recv
            pos = pos[1:]
        if len(call.args) > len(pos):
            return None
        for p, v in zip(pos, call.args):
            binding[p.arg] = v
        names = {p.arg for p in pos} | {p.arg for p in a.kwonlyargs}
        for k in call.keywords:
            if k.arg not in names or k.arg in binding:
                return None
            binding[k.arg] = k.value
        defaults = dict(zip([p.arg for p in (a.posonlyargs + a.args)][len(a.posonlyargs + a.args) - len(a.defaults):], a.defaults))
        for p, d in zip(a.kwonlyargs, a.kw_defaults):
            if d is not None:
                defaults[p.arg] = d
        for p in pos + list(a.kwonlyargs):
            if p.arg not in binding:
                if p.arg not in defaults:
                    return None
                binding[p.arg] = defaults[p.arg]
        return binding

    # -- expansion ----------------------------------------------------------------------------------
    def expand(self, h: ast.FunctionDef, recv, call: ast.Call, context: ast.stmt, caller_names: Set[str]) -> Optional[List[ast.stmt]]:
        binding = self.bind(h, recv, call)
        if binding is None:
            return None
        body = [s for s in h.body]
        if body and isinstance(body[0], ast.Expr) and isinstance(body[0].value, ast.Constant) and isinstance(body[0].value.value, str):
            body = body[1:]
        body = clone(body)
        if _DEEP[0] and isinstance(context, ast.Return):
            tail = body  # `return h(..)`: the helper's returns are the caller's returns wherever they sit
        else:
            tail = _tailify(body, [40])
            if tail is None:
                return None
        stored = set()
        for s in tail:
            stored |= _stored_names(s)
        self.counter += 1
        while any(n.startswith(f"_i{self.counter}_") for n in stored | caller_names):
            self.counter += 1
        pre = f"_i{self.counter}_"
        params = list(binding)
        simple_param: Dict[str, ast.AST] = {}
        prologue: List[ast.stmt] = []
        rename: Dict[str, str] = {}
        for p in params:
            v = binding[p]
            is_simple = isinstance(v, ast.Constant) or (dotted_name(v) is not None)
            if is_simple and p not in stored:
                simple_param[p] = v
            else:
                rename[p] = pre + p
                asg = ast.Assign(targets=[ast.Name(id=pre + p, ctx=ast.Store())], value=clone(v), lineno=call.lineno, col_offset=0)
                ast.fix_missing_locations(asg)
                prologue.append(asg)
        imported = {(al.asname or al.name).split(".")[0] for s in tail for x in ast.walk(s) if isinstance(x, (ast.Import, ast.ImportFrom)) for al in x.names}
        for n in stored - imported:
            if n not in rename and (n in caller_names or n in simple_param):
                rename[n] = pre + n
        wrapper = ast.Module(body=tail, type_ignores=[])
        for x in ast.walk(wrapper):
            if isinstance(x, ast.Name) and x.id in rename:
                x.id = rename[x.id]
            elif isinstance(x, ast.ExceptHandler) and x.name in rename:
                x.name = rename[x.name]
        wrapper = _Subst(simple_param).visit(wrapper)
        tail = wrapper.body

        def at(node: ast.AST, ref: ast.AST) -> ast.AST:
            ast.copy_location(node, ref)
            ast.fix_missing_locations(node)
            return node

        if _DEEP[0] and isinstance(context, ast.Return):
            out = prologue + tail
            if not _always_returns(tail):
                out = out + [at(ast.Return(value=None), context)]
            self.inlined.append(h.name)
            return out
        if isinstance(context, ast.Return):
            make = lambda v, r: [at(ast.Return(value=v), r)]
            fall = lambda: [at(ast.Return(value=None), context)]
            out = prologue + _finish(tail, make, fall)
            self.inlined.append(h.name)
            return out or [at(ast.Pass(), context)]
        if isinstance(context, ast.Expr):
            make = lambda v, r: ([] if v is None or isinstance(v, ast.Constant) or isinstance(v, ast.Name) else [at(ast.Expr(value=v), r)])
            fall = lambda: []
        elif isinstance(context, ast.Assign):
            make = lambda v, r: [at(ast.Assign(targets=clone(context.targets), value=v if v is not None else ast.Constant(value=None)), r)]
            fall = lambda: [at(ast.Assign(targets=clone(context.targets), value=ast.Constant(value=None)), context)]
        elif isinstance(context, ast.AnnAssign):
            make = lambda v, r: [at(ast.AnnAssign(target=clone(context.target), annotation=clone(context.annotation), value=v if v is not None else ast.Constant(value=None), simple=context.simple), r)]
            fall = lambda: [at(ast.AnnAssign(target=clone(context.target), annotation=clone(context.annotation), value=ast.Constant(value=None), simple=context.simple), context)]
        else:
            return None
        out = prologue + _finish(tail, make, fall)
        self.inlined.append(h.name)
        return out or [at(ast.Pass(), context)]

    # -- driver ---------------------------------------------------------------------------------------
    def _spine_only(self, header: ast.AST, call: ast.Call) -> bool:
        """Hoisting *call* out of *header* keeps evaluation order: every other call in the header encloses it
        or is one of its own arguments, and it is not under a short-circuit / conditional / comprehension / lambda."""
        chain = set()
        p = call
        while p is not header:
            p = parent(p)
            if p is None:
                return False
            if isinstance(p, (ast.BoolOp, ast.IfExp, ast.Lambda, ast.ListComp, ast.SetComp, ast.DictComp, ast.GeneratorExp)):
                return False
            chain.add(id(p))
        inside = {id(x) for x in ast.walk(call)}
        for x in _walk_no_defs(header):
            if isinstance(x, ast.Call) and id(x) not in chain and id(x) not in inside:
                return False
        return True

    def run(self, fn: ast.AST, rounds: int = 3) -> None:
        for _ in range(rounds):
            changed = False
            _attach_parents(fn)
            caller_names = _stored_names(fn) | set(_params(fn))
            for block in list(_blocks(fn)):
                i = 0
                while i < len(block):
                    st = block[i]
                    repl = self._try_stmt(st, caller_names)
                    if repl is not None:
                        block[i:i + 1] = repl
                        changed = True
                        for s in repl:
                            caller_names |= _stored_names(s)
                        i += len(repl)
                    else:
                        i += 1
            if not changed:
                break
        _attach_parents(fn)

    def _try_stmt(self, st: ast.stmt, caller_names: Set[str]) -> Optional[List[ast.stmt]]:
        if isinstance(st, (ast.Expr, ast.Assign, ast.AnnAssign, ast.Return)) and isinstance(getattr(st, "value", None), ast.Call):
            hit = self.helper_of(st.value)
            if hit is not None and not (isinstance(st, ast.Assign) and (len(st.targets) != 1 or not isinstance(st.targets[0], ast.Name))):
                out = self.expand(hit[0], hit[1], st.value, st, caller_names)
                if out is not None:
                    return out
        # a helper call deeper in a simple statement or in an if/for header: hoist into a temporary first
        header: Optional[ast.AST]
        if isinstance(st, (ast.Expr, ast.Assign, ast.AnnAssign, ast.AugAssign, ast.Return, ast.Raise)):
            header = st
        elif isinstance(st, ast.If):
            header = st.test
        elif isinstance(st, ast.For):
            header = st.iter
        else:
            return None
        for x in _walk_no_defs(header):
            direct = x is getattr(st, "value", None) and (isinstance(st, (ast.Expr, ast.AnnAssign, ast.Return)) or (isinstance(st, ast.Assign) and len(st.targets) == 1 and isinstance(st.targets[0], ast.Name)))
            if isinstance(x, ast.Call) and not direct:
                hit = self.helper_of(x)
                if hit is None or not self._spine_only(header, x):
                    continue
                self.counter += 1
                tmp = f"_i{self.counter}_ret"
                asg = ast.Assign(targets=[ast.Name(id=tmp, ctx=ast.Store())], value=x)
                ast.copy_location(asg, st)
                ast.fix_missing_locations(asg)
                out = self.expand(hit[0], hit[1], x, asg, caller_names | {tmp})
                if out is None:
                    continue
                # replace x by the temporary inside st
                p = parent(x)
                ref = ast.copy_location(ast.Name(id=tmp, ctx=ast.Load()), x)
                for f, v in ast.iter_fields(p):
                    if v is x:
                        setattr(p, f, ref)
                    elif isinstance(v, list):
                        for j, e in enumerate(v):
                            if e is x:
                                v[j] = ref
                return out + [st]
        return None


# ---------------------------------------------------------------------------------------------------------
# N2 module constants
# ---------------------------------------------------------------------------------------------------------

def _is_literal(e: ast.AST) -> bool:
    if isinstance(e, ast.Constant):
        return True
    if isinstance(e, (ast.Tuple, ast.List, ast.Set)):
        return all(_is_literal(x) for x in e.elts)
    if isinstance(e, ast.Dict):
        return all(k is not None and _is_literal(k) and _is_literal(v) for k, v in zip(e.keys, e.values))
    if isinstance(e, (ast.Name, ast.Attribute)):
        return dotted_name(e) is not None
    if isinstance(e, ast.UnaryOp) and isinstance(e.op, ast.USub):
        return _is_literal(e.operand)
    if isinstance(e, ast.Call) and dotted_name(e.func) in ("frozenset", "tuple", "set") and len(e.args) == 1 and not e.keywords:
        return _is_literal(e.args[0])
    return False


def module_constants(mod: Module) -> Dict[str, ast.AST]:
    """Module-level names bound exactly once to a literal and never mutated / rebound anywhere in the module."""
    cached = getattr(mod, "_constants", None)
    if cached is not None:
        return cached
    cands: Dict[str, ast.AST] = {}
    count: Dict[str, int] = {}
    for st in mod.tree.body:
        tgt = None
        if isinstance(st, ast.Assign) and len(st.targets) == 1 and isinstance(st.targets[0], ast.Name):
            tgt, val = st.targets[0].id, st.value
        elif isinstance(st, ast.AnnAssign) and isinstance(st.target, ast.Name) and st.value is not None:
            tgt, val = st.target.id, st.value
        if tgt is not None:
            count[tgt] = count.get(tgt, 0) + 1
            if _is_literal(val) and not isinstance(val, (ast.Name, ast.Attribute)):
                cands[tgt] = val
    MUT = {"append", "extend", "insert", "add", "update", "setdefault", "pop", "popitem", "remove", "discard", "clear", "sort", "reverse", "__setitem__"}
    bad: Set[str] = {n for n, c in count.items() if c > 1}
    for n in ast.walk(mod.tree):
        if isinstance(n, ast.Global):
            bad.update(n.names)
        elif isinstance(n, (ast.Subscript, ast.Attribute)) and isinstance(n.ctx, (ast.Store, ast.Del)):
            r = n
            while isinstance(r, (ast.Subscript, ast.Attribute)):
                r = r.value
            if isinstance(r, ast.Name):
                bad.add(r.id)
        elif isinstance(n, ast.Call) and isinstance(n.func, ast.Attribute) and n.func.attr in MUT and isinstance(n.func.value, ast.Name):
            bad.add(n.func.value.id)
        elif isinstance(n, ast.AugAssign) and isinstance(n.target, ast.Name):
            bad.add(n.target.id)
        elif isinstance(n, ast.Name) and isinstance(n.ctx, ast.Store) and n.id in cands and not isinstance(parent(parent(n)) if parent(n) is not None else None, ast.Module):
            # rebound inside a function: a local shadow, handled per function
            pass
    out = {k: v for k, v in cands.items() if k not in bad}
    mod._constants = out  # type: ignore[attr-defined]
    return out


_READ_ONLY_METHODS = {"get", "keys", "values", "items", "copy", "index", "count", "__contains__", "__getitem__", "__len__", "__iter__",
                      "union", "intersection", "difference", "issubset", "issuperset", "isdisjoint"}
_READ_ONLY_CALLS = {"len", "sorted", "list", "tuple", "set", "dict", "frozenset", "iter", "any", "all", "sum", "min", "max", "enumerate",
                    "zip", "reversed", "bool", "repr", "str", "isinstance"}


def _mutable_literal(v: ast.AST) -> bool:
    return isinstance(v, (ast.Dict, ast.List, ast.Set)) or (
        isinstance(v, ast.Call) and isinstance(v.func, ast.Name) and v.func.id in ("set",))


def _read_only_use(n: ast.Name, par: Dict[int, ast.AST]) -> bool:
    """The use of a module-level mutable constant at *n* only reads it (so a copy of the display means the same)."""
    p = par.get(id(n))
    if p is None:
        return False
    if isinstance(p, ast.Compare):
        return True
    if isinstance(p, ast.Subscript) and p.value is n and isinstance(p.ctx, ast.Load):
        return True
    if isinstance(p, ast.Attribute) and p.value is n and p.attr in _READ_ONLY_METHODS:
        g = par.get(id(p))
        return isinstance(g, ast.Call) and g.func is p
    if isinstance(p, (ast.For, ast.AsyncFor, ast.comprehension)) and p.iter is n:
        return True
    if isinstance(p, ast.Starred):
        return True
    if isinstance(p, ast.keyword) and p.arg is None:
        return True
    if isinstance(p, ast.Dict) and any(k is None and v is n for k, v in zip(p.keys, p.values)):
        return True
    if isinstance(p, ast.BinOp) and isinstance(p.op, (ast.Add, ast.BitOr, ast.BitAnd, ast.Sub, ast.Mult, ast.Mod)):
        return True
    if isinstance(p, ast.Call) and any(a is n for a in p.args) and isinstance(p.func, ast.Name) and p.func.id in _READ_ONLY_CALLS:
        return True
    if isinstance(p, ast.UnaryOp) and isinstance(p.op, ast.Not):
        return True
    if isinstance(p, ast.IfExp) and p.test is n:
        return True
    if isinstance(p, (ast.If, ast.While, ast.Assert)) and getattr(p, "test", None) is n:
        return True
    return False


def _apply_consts(fn: ast.AST, mod: Module) -> None:
    consts = module_constants(mod)
    if not consts:
        return
    local = _stored_names(fn) | set(_params(fn))
    mapping = {k: v for k, v in consts.items() if k not in local}
    if mapping:
        par: Dict[int, ast.AST] = {}
        for a in ast.walk(fn):
            for c in ast.iter_child_nodes(a):
                par[id(c)] = a

        class _ConstSubst(_Subst):
            def visit_Name(self, node: ast.Name):
                if isinstance(node.ctx, ast.Load) and node.id in self.mapping and _mutable_literal(self.mapping[node.id]) and not _read_only_use(node, par):
                    # the one shared object must stay one object: handing it on (argument, return, store) lets the
                    # receiver keep and mutate it, which a fresh display per use would hide
                    return node
                return super().visit_Name(node)

        _ConstSubst(mapping).visit(fn)


# ---------------------------------------------------------------------------------------------------------
# N3 copy propagation
# ---------------------------------------------------------------------------------------------------------

def _purity(e: ast.AST) -> Optional[str]:
    """None if not pure; 'safe' if it cannot raise in practice (names, constants, identity tests);
    'pure' if side-effect free but may raise; 'fresh' if it builds a new mutable object."""
    level = "safe"
    order = {"safe": 0, "pure": 1, "fresh": 2}

    def up(l: str) -> None:
        nonlocal level
        if order[l] > order[level]:
            level = l

    def rec(x: ast.AST) -> bool:
        if isinstance(x, (ast.Constant, ast.Name)):
            return True
        if isinstance(x, ast.Attribute):
            up("pure")
            return rec(x.value)
        if isinstance(x, ast.Subscript):
            up("pure")
            return rec(x.value) and rec(x.slice)
        if isinstance(x, ast.Slice):
            return all(rec(y) for y in (x.lower, x.upper, x.step) if y is not None)
        if isinstance(x, ast.Compare):
            if not all(isinstance(o, (ast.Is, ast.IsNot)) for o in x.ops):
                up("pure")
            return rec(x.left) and all(rec(c) for c in x.comparators)
        if isinstance(x, ast.BoolOp):
            return all(rec(v) for v in x.values)
        if isinstance(x, ast.UnaryOp):
            if not isinstance(x.op, ast.Not):
                up("pure")
            return rec(x.operand)
        if isinstance(x, ast.BinOp):
            up("pure")
            return rec(x.left) and rec(x.right)
        if isinstance(x, ast.IfExp):
            return rec(x.test) and rec(x.body) and rec(x.orelse)
        if isinstance(x, ast.JoinedStr):
            up("pure")
            return all(rec(v) for v in x.values)
        if isinstance(x, ast.FormattedValue):
            return rec(x.value) and (x.format_spec is None or rec(x.format_spec))
        if isinstance(x, ast.Tuple):
            return all(rec(v) for v in x.elts)
        if isinstance(x, (ast.List, ast.Set)):
            up("fresh")
            return all(rec(v) for v in x.elts)
        if isinstance(x, ast.Dict):
            up("fresh")
            return all((k is None or rec(k)) and rec(v) for k, v in zip(x.keys, x.values))
        if isinstance(x, ast.Starred):
            return rec(x.value)
        if isinstance(x, ast.Call):
            d = dotted_name(x.func)
            ok = False
            if isinstance(x.func, ast.Name) and x.func.id in PURE_BUILTINS:
                ok = True
                up("pure")
            elif isinstance(x.func, ast.Name) and x.func.id in FRESH_BUILTINS:
                ok = True
                up("fresh")
            elif d in PURE_MODULE_CALLS:
                ok = True
                up("pure")
            elif isinstance(x.func, ast.Attribute) and x.func.attr in PURE_METHODS:
                ok = rec(x.func.value)
                up("pure")
            if not ok:
                return False
            return all(rec(a) for a in x.args) and all(rec(k.value) for k in x.keywords)
        return False

    return level if rec(e) else None


def _enclosing_try(node: ast.AST, root: ast.AST) -> Tuple[int, str]:
    """(id of innermost enclosing Try, which part) for exception-region comparisons."""
    child, p = node, parent(node)
    while p is not None and child is not root:
        if isinstance(p, ast.Try):
            part = "body" if child in p.body else "orelse" if child in p.orelse else "final" if child in p.finalbody else "handler"
            return id(p), part
        if isinstance(p, ast.ExceptHandler):
            return id(p), "handler"
        child, p = p, parent(p)
    return 0, ""


def _copyprop_once(fn: ast.AST, only_temps: bool) -> bool:
    _attach_parents(fn)
    params = set(_params(fn))
    defs: Dict[str, List[ast.AST]] = {}
    for n in _walk_no_defs(fn):
        if isinstance(n, ast.Name) and isinstance(n.ctx, (ast.Store, ast.Del)):
            defs.setdefault(n.id, []).append(n)
        elif isinstance(n, ast.ExceptHandler) and n.name:
            defs.setdefault(n.name, []).append(n)
    # names stored in nested defs (nonlocal use) are left alone
    nested_stores: Set[str] = set()
    for n in ast.walk(fn):
        if isinstance(n, FuncNode + (ast.Lambda,)) and n is not fn:
            nested_stores |= _stored_names(n)
    mutated: Set[str] = set()
    MUT = {"append", "extend", "insert", "add", "update", "setdefault", "pop", "popitem", "remove", "discard", "clear", "sort", "reverse", "set_value", "delete_value"}
    for n in ast.walk(fn):
        if isinstance(n, (ast.Subscript, ast.Attribute)) and isinstance(n.ctx, (ast.Store, ast.Del)):
            r = n.value
            while isinstance(r, (ast.Subscript, ast.Attribute)):
                r = r.value
            if isinstance(r, ast.Name):
                mutated.add(r.id)
        elif isinstance(n, ast.Call) and isinstance(n.func, ast.Attribute) and n.func.attr in MUT:
            r = n.func.value
            while isinstance(r, (ast.Subscript, ast.Attribute)):
                r = r.value
            if isinstance(r, ast.Name):
                mutated.add(r.id)
        elif isinstance(n, ast.AugAssign) and isinstance(n.target, ast.Name):
            mutated.add(n.target.id)

    order: Dict[int, int] = {}

    def number(n: ast.AST) -> None:
        order[id(n)] = len(order)
        for c in ast.iter_child_nodes(n):
            number(c)

    number(fn)

    def stable(name: str, at_stmt: ast.stmt) -> bool:
        """*name* keeps its value from *at_stmt* on: parameter never rebound, single-def local, or the target
        of a loop that encloses at_stmt."""
        ds = defs.get(name, [])
        if name in nested_stores:
            return False
        if not ds:
            return True  # parameter never rebound / global / builtin
        if name in params:
            return False
        if len(ds) != 1:
            return False
        d = ds[0]
        if isinstance(d, ast.Name) and order[id(d)] < order[id(at_stmt)]:
            return True
        return False

    for block in _blocks(fn):
        for idx, st in enumerate(block):
            tgt: Optional[ast.Name] = None
            if isinstance(st, ast.Assign) and len(st.targets) == 1 and isinstance(st.targets[0], ast.Name):
                tgt = st.targets[0]
            elif isinstance(st, ast.AnnAssign) and isinstance(st.target, ast.Name) and st.value is not None:
                tgt = st.target
            if tgt is None or tgt.id in params or tgt.id in nested_stores or len(defs.get(tgt.id, [])) != 1:
                continue
            v = tgt.id
            rhs = st.value
            if only_temps and not (v.startswith("_i") and v[2:3].isdigit()) and not (isinstance(rhs, ast.Name) and rhs.id.startswith("_i") and rhs.id[2:3].isdigit()):
                continue
            level = _purity(rhs)
            if level is None:
                continue
            if v in mutated and not isinstance(rhs, ast.Name):
                continue
            free = {x.id for x in ast.walk(rhs) if isinstance(x, ast.Name)}
            if v in free or not all(stable(x, st) for x in free):
                continue
            if level != "safe" and any(x in mutated for x in free) and not isinstance(rhs, ast.Name):
                continue
            if isinstance(rhs, ast.Name) and (rhs.id in mutated) != (v in mutated) and False:
                continue
            uses = [n for n in ast.walk(fn) if isinstance(n, ast.Name) and n.id == v and isinstance(n.ctx, ast.Load)]
            if not uses:
                continue
            if level == "fresh" and len(uses) != 1:
                continue
            # every use comes after the definition, inside the defining block (so the definition dominates it)
            later = block[idx + 1:]
            later_nodes = {id(x) for s in later for x in ast.walk(s)}
            if not all(id(u) in later_nodes for u in uses):
                continue
            # loops: a fresh/pure value defined before a loop and used inside is re-evaluated per iteration: only safe values
            if level != "safe":
                region = _enclosing_try(st, fn)
                bad = False
                for u in uses:
                    if _enclosing_try(u, fn) != region:
                        bad = True
                        break
                    p = parent(u)
                    while p is not None and p is not fn:
                        if isinstance(p, (ast.For, ast.While, ast.ListComp, ast.SetComp, ast.DictComp, ast.GeneratorExp, ast.Lambda) + FuncNode) and id(p) in later_nodes and level == "fresh":
                            bad = True
                        p = parent(p)
                if bad:
                    continue
            else:
                if any(isinstance(a, FuncNode + (ast.Lambda,)) and a is not fn for u in uses for a in _anc(u, fn)):
                    # closures capture the variable, not the value; value is stable, so substitution is still fine
                    pass
            sub = _Subst({v: rhs})
            for s in later:
                sub.visit(s)
            del block[idx]
            return True
    return False


def _anc(n: ast.AST, root: ast.AST) -> Iterator[ast.AST]:
    p = parent(n)
    while p is not None and p is not root:
        yield p
        p = parent(p)


def _copyprop(fn: ast.AST, only_temps: bool, limit: int = 80) -> None:
    for _ in range(limit):
        if not _copyprop_once(fn, only_temps):
            break
    _attach_parents(fn)


# ---------------------------------------------------------------------------------------------------------
# N4 if/else of the same statement -> conditional expression
# ---------------------------------------------------------------------------------------------------------

def _merge_pair(test: ast.AST, a: ast.AST, b: ast.AST) -> Optional[ast.AST]:
    """Merge two ASTs differing in exactly one expression position into one with an IfExp there."""
    if type(a) is not type(b):
        if isinstance(a, ast.expr) and isinstance(b, ast.expr):
            return ast.copy_location(ast.IfExp(test=clone(test), body=a, orelse=b), a)
        return None
    if ast.dump(a) == ast.dump(b):
        return a
    if isinstance(a, ast.expr) and not isinstance(a, (ast.Call, ast.Attribute, ast.Subscript)):
        return ast.copy_location(ast.IfExp(test=clone(test), body=a, orelse=b), a)
    diffs = []
    for f in a._fields:
        va, vb = getattr(a, f, None), getattr(b, f, None)
        if isinstance(va, list) and isinstance(vb, list):
            if len(va) != len(vb):
                if isinstance(a, ast.expr):
                    return ast.copy_location(ast.IfExp(test=clone(test), body=a, orelse=b), a)
                return None
            for i, (xa, xb) in enumerate(zip(va, vb)):
                if ast.dump(xa) != ast.dump(xb) if isinstance(xa, ast.AST) and isinstance(xb, ast.AST) else xa != xb:
                    diffs.append((f, i))
        elif isinstance(va, ast.AST) and isinstance(vb, ast.AST):
            if ast.dump(va) != ast.dump(vb):
                diffs.append((f, None))
        elif va != vb:
            if isinstance(a, ast.expr):
                return ast.copy_location(ast.IfExp(test=clone(test), body=a, orelse=b), a)
            return None
    if len(diffs) != 1:
        if isinstance(a, ast.expr):
            return ast.copy_location(ast.IfExp(test=clone(test), body=a, orelse=b), a)
        return None
    f, i = diffs[0]
    if f in ("targets", "target", "func", "ctx", "op", "ops"):
        if isinstance(a, ast.expr) and f not in ("ctx",):
            return ast.copy_location(ast.IfExp(test=clone(test), body=a, orelse=b), a)
        return None
    if i is None:
        m = _merge_pair(test, getattr(a, f), getattr(b, f))
        if m is None:
            return None
        setattr(a, f, m)
    else:
        xa, xb = getattr(a, f)[i], getattr(b, f)[i]
        if not (isinstance(xa, ast.AST) and isinstance(xb, ast.AST)):
            return None
        m = _merge_pair(test, xa, xb)
        if m is None:
            return None
        getattr(a, f)[i] = m
    return a


def _ifexp(fn: ast.AST) -> None:
    changed = True
    while changed:
        changed = False
        for block in _blocks(fn):
            for idx, st in enumerate(block):
                if isinstance(st, ast.If) and len(st.body) == 1 and len(st.orelse) == 1:
                    a, b = st.body[0], st.orelse[0]
                    if type(a) is type(b) and isinstance(a, (ast.Assign, ast.AnnAssign, ast.Expr, ast.Return)) and getattr(a, "value", None) is not None and getattr(b, "value", None) is not None:
                        if isinstance(a, ast.Assign) and [ast.dump(t) for t in a.targets] != [ast.dump(t) for t in b.targets]:
                            continue
                        if isinstance(a, ast.AnnAssign) and ast.dump(a.target) != ast.dump(b.target):
                            continue
                        if isinstance(a, ast.Expr) and not (isinstance(a.value, ast.Call) and isinstance(b.value, ast.Call) and ast.dump(a.value.func) == ast.dump(b.value.func)):
                            continue
                        m = _merge_pair(st.test, a, b)
                        if m is not None:
                            ast.fix_missing_locations(m)
                            block[idx] = m
                            changed = True
    # ``if c: pass else: X`` -> ``if not c: X``
    for n in _walk_no_defs(fn):
        if isinstance(n, ast.If) and n.orelse and all(isinstance(x, ast.Pass) for x in n.body):
            t = n.test
            n.test = t.operand if isinstance(t, ast.UnaryOp) and isinstance(t.op, ast.Not) else ast.copy_location(ast.UnaryOp(op=ast.Not(), operand=t), t)
            n.body, n.orelse = n.orelse, []
    # ``x: T`` bare annotations carry nothing
    for block in _blocks(fn):
        block[:] = [s for s in block if not (isinstance(s, ast.AnnAssign) and s.value is None and isinstance(s.target, ast.Name))] or [ast.Pass(lineno=getattr(fn, "lineno", 1), col_offset=0)]
    _attach_parents(fn)


# ---------------------------------------------------------------------------------------------------------
# N5 accumulate-in-a-loop -> comprehension
# ---------------------------------------------------------------------------------------------------------

def _loop_to_comp(acc: str, loop: ast.For) -> Optional[Tuple[str, ast.AST, List[ast.comprehension], Optional[ast.AST]]]:
    gens: List[ast.comprehension] = []
    cur: ast.stmt = loop
    while True:
        if isinstance(cur, ast.For):
            if cur.orelse:
                return None
            gens.append(ast.comprehension(target=cur.target, iter=cur.iter, ifs=[], is_async=0))
            body = cur.body
        elif isinstance(cur, ast.If):
            if cur.orelse or not gens:
                return None
            gens[-1].ifs.append(cur.test)
            body = cur.body
        else:
            break
        if len(body) != 1:
            return None
        cur = body[0]
    if isinstance(cur, ast.Expr) and isinstance(cur.value, ast.Call) and isinstance(cur.value.func, ast.Attribute) and isinstance(cur.value.func.value, ast.Name) and cur.value.func.value.id == acc and len(cur.value.args) == 1 and not cur.value.keywords:
        if cur.value.func.attr == "append":
            return "list", cur.value.args[0], gens, None
        if cur.value.func.attr == "add":
            return "set", cur.value.args[0], gens, None
    if isinstance(cur, ast.Assign) and len(cur.targets) == 1 and isinstance(cur.targets[0], ast.Subscript) and isinstance(cur.targets[0].value, ast.Name) and cur.targets[0].value.id == acc:
        return "dict", cur.targets[0].slice, gens, cur.value
    return None


def _loops(fn: ast.AST) -> None:
    for block in _blocks(fn):
        i = 0
        while i + 1 < len(block):
            st, nx = block[i], block[i + 1]
            tgt = None
            if isinstance(st, ast.Assign) and len(st.targets) == 1 and isinstance(st.targets[0], ast.Name):
                tgt = st.targets[0].id
            elif isinstance(st, ast.AnnAssign) and isinstance(st.target, ast.Name) and st.value is not None:
                tgt = st.target.id
            empty = tgt is not None and ((isinstance(st.value, (ast.List, ast.Set)) and not st.value.elts) or (isinstance(st.value, ast.Dict) and not st.value.keys) or (isinstance(st.value, ast.Call) and dotted_name(st.value.func) in ("list", "dict", "set") and not st.value.args and not st.value.keywords))
            if empty and isinstance(nx, ast.For):
                r = _loop_to_comp(tgt, nx)
                used_in_loop = any(isinstance(x, ast.Name) and x.id == tgt and isinstance(x.ctx, ast.Load) for g in (r[2] if r else []) for x in ast.walk(g))
                kind_ok = r is not None and ((r[0] == "list" and (isinstance(st.value, ast.List) or dotted_name(getattr(st.value, "func", None) or ast.Constant(value=0)) == "list")) or (r[0] == "set" and dotted_name(getattr(st.value, "func", None) or ast.Constant(value=0)) == "set") or (r[0] == "dict" and (isinstance(st.value, ast.Dict) or dotted_name(getattr(st.value, "func", None) or ast.Constant(value=0)) == "dict")))
                if r is not None and kind_ok and not used_in_loop:
                    kind, elt, gens, val = r
                    comp: ast.AST
                    if kind == "list":
                        comp = ast.ListComp(elt=elt, generators=gens)
                    elif kind == "set":
                        comp = ast.SetComp(elt=elt, generators=gens)
                    else:
                        comp = ast.DictComp(key=elt, value=val, generators=gens)
                    ast.copy_location(comp, nx)
                    st.value = comp
                    ast.fix_missing_locations(st)
                    del block[i + 1]
                    continue
            i += 1
    _attach_parents(fn)


# ---------------------------------------------------------------------------------------------------------
# entry point
# ---------------------------------------------------------------------------------------------------------

def normalize(repo: Repo, mod: Module, fn: ast.AST, *, inline: bool = True, keep: Iterable[str] = (), consts: bool = True,
              copyprop: str = "temps", ifexp: bool = True, loops: bool = False, deep: bool = False) -> ast.AST:
    """Normal form of *fn* (a def of *mod*); the original tree is left untouched.
    deep=True additionally inlines helpers that return from inside try/except or from a search loop (the loop gets
    a for..else with break), and helpers called as `return h(..)` whatever the position of their returns."""
    _DEEP[0] = bool(deep)
    try:
        return _normalize(repo, mod, fn, inline=inline, keep=keep, consts=consts, copyprop=copyprop, ifexp=ifexp, loops=loops)
    finally:
        _DEEP[0] = False


def _normalize(repo: Repo, mod: Module, fn: ast.AST, *, inline: bool = True, keep: Iterable[str] = (), consts: bool = True,
               copyprop: str = "temps", ifexp: bool = True, loops: bool = False) -> ast.AST:
    new = clone(fn)
    _attach_parents(new)
    new._parent = parent(fn)  # type: ignore[attr-defined]
    new._normal_of = fn  # type: ignore[attr-defined]
    _lower_match(new)
    _attach_parents(new)
    new._parent = parent(fn)  # type: ignore[attr-defined]
    inl = _Inliner(repo, mod, new, keep)
    if inline:
        inl.run(new)
    if consts:
        _apply_consts(new, mod)
    if ifexp:
        _ifexp(new)
    if loops:
        _loops(new)
    if copyprop:
        _copyprop(new, only_temps=(copyprop != "all"))
    if ifexp:
        _ifexp(new)
    ast.fix_missing_locations(new)
    _attach_parents(new)
    new._parent = parent(fn)  # type: ignore[attr-defined]
    new._inlined = inl.inlined  # type: ignore[attr-defined]
    return new


def nfunc(repo: Repo, rel: str, qualname: str, **opts) -> ast.FunctionDef:
    fn = repo.func(rel, qualname)
    key = (rel, qualname, tuple(sorted((k, tuple(v) if isinstance(v, (set, list, tuple, frozenset)) else v) for k, v in opts.items())))
    cache = repo.__dict__.setdefault("_nfunc_cache", {})
    if key not in cache:
        cache[key] = normalize(repo, repo.module(rel), fn, **opts)
    return cache[key]
