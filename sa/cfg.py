"""E3/E4: statement-level control-flow graph with exception edges, and path queries.

Two abstract exception classes are modelled: ``EXC`` (``Exception`` subclasses)
and ``BASE`` (KeyboardInterrupt / SystemExit class).  ``finally`` bodies are
inlined once per continuation.  The graph is built from the syntax tree only.
"""
from __future__ import annotations

import ast
from collections import deque
from dataclasses import dataclass, field
from typing import Callable, Dict, Iterable, List, Optional, Sequence, Set, Tuple

from .engine import AnalysisError, FuncNode, norm, walk_no_nested

EXC = "EXC"
BASE = "BASE"

BASE_ONLY_NAMES = {"KeyboardInterrupt", "SystemExit", "GeneratorExit"}
CATCH_ALL_NAMES = {"BaseException"}
FULL_EXC_NAMES = {"Exception"}


@dataclass
class Node:
    id: int
    kind: str  # stmt | if | for | while | with | except | entry | ret_exit | exc_exit | base_exit | join
    ast: Optional[ast.AST] = None
    part: Optional[ast.AST] = None  # the expression evaluated at this node (test / iter / items)
    handler_of: Optional[ast.ExceptHandler] = None

    def text(self) -> str:
        if self.ast is None:
            return f"<{self.kind}>"
        return norm(self.ast)

    @property
    def line(self) -> int:
        return getattr(self.ast, "lineno", 0) if self.ast is not None else 0


@dataclass(frozen=True)
class Ctx:
    exc: Tuple[int, ...]
    base: Tuple[int, ...]
    ret: int
    brk: Optional[int] = None
    cont: Optional[int] = None
    caught: Tuple[str, ...] = ()  # classes caught by the innermost enclosing handler


def default_may_raise(part: ast.AST) -> Set[str]:
    """Which exception classes evaluating *part* may raise (conservative)."""
    for n in walk_no_nested(part):
        if isinstance(n, (ast.Call, ast.Raise, ast.Assert, ast.Await, ast.Yield, ast.YieldFrom)):
            return {EXC, BASE}
        if isinstance(n, ast.Subscript) and isinstance(n.ctx, ast.Load):
            return {EXC, BASE}
        if isinstance(n, (ast.Import, ast.ImportFrom)):
            return {EXC, BASE}
    return set()


def handler_classes(h: ast.ExceptHandler) -> Tuple[Set[str], Set[str]]:
    """(fully caught classes, partially caught classes) for handler *h*."""
    if h.type is None:
        return {EXC, BASE}, set()
    types = h.type.elts if isinstance(h.type, ast.Tuple) else [h.type]
    full: Set[str] = set()
    part: Set[str] = set()
    for t in types:
        name = t.attr if isinstance(t, ast.Attribute) else t.id if isinstance(t, ast.Name) else None
        if name in CATCH_ALL_NAMES:
            full |= {EXC, BASE}
        elif name in FULL_EXC_NAMES:
            full.add(EXC)
        elif name in BASE_ONLY_NAMES:
            part.add(BASE)
        else:
            part.add(EXC)
    return full, part - full


def suppressed_classes(st: ast.AST) -> Tuple[Set[str], Set[str]]:
    """(fully, partially) suppressed abstract classes of a `with [contextlib.]suppress(E, ...):` statement
    (empty sets for any other with statement).  Only the spelling by the standard name is recognised."""
    full: Set[str] = set()
    part: Set[str] = set()
    for item in getattr(st, "items", []):
        c = item.context_expr
        if not isinstance(c, ast.Call) or c.keywords:
            continue
        f = c.func
        name = f.attr if isinstance(f, ast.Attribute) else f.id if isinstance(f, ast.Name) else None
        if name != "suppress" or not c.args or any(isinstance(a, ast.Starred) for a in c.args):
            continue
        fake = ast.ExceptHandler(type=ast.Tuple(elts=list(c.args), ctx=ast.Load()), name=None, body=[])
        fu, pa = handler_classes(fake)
        full |= fu
        part |= pa
    return full, part - full


STATS = {"cfgs_built": 0, "cfg_nodes": 0, "cfg_edges": 0, "functions": set()}


class CFG:
    def __init__(
        self,
        func: ast.AST,
        *,
        fold: Optional[Callable[[ast.AST], Optional[bool]]] = None,
        may_raise: Optional[Callable[[ast.AST], Set[str]]] = None,
    ) -> None:
        if not isinstance(func, FuncNode):
            raise AnalysisError("CFG needs a function definition")
        self.func = func
        self.nodes: List[Node] = []
        self.succ: Dict[int, List[Tuple[int, str]]] = {}
        self.fold = fold or (lambda test: None)
        self.may_raise = may_raise or default_may_raise
        self.by_ast: Dict[int, List[int]] = {}
        self.ret_exit = self._new("ret_exit")
        self.exc_exit = self._new("exc_exit")
        self.base_exit = self._new("base_exit")
        ctx = Ctx(exc=(self.exc_exit,), base=(self.base_exit,), ret=self.ret_exit)
        first = self._seq(func.body, self.ret_exit, ctx)
        self.entry = self._new("entry")
        self._edge(self.entry, first, "n")
        STATS["cfgs_built"] += 1
        STATS["cfg_nodes"] += len(self.nodes)
        STATS["cfg_edges"] += sum(len(v) for v in self.succ.values())
        STATS["functions"].add((getattr(func, "name", "?"), getattr(func, "lineno", 0)))

    # -- construction --------------------------------------------------
    def _new(self, kind: str, node: Optional[ast.AST] = None, part: Optional[ast.AST] = None) -> int:
        nid = len(self.nodes)
        self.nodes.append(Node(nid, kind, node, part))
        self.succ[nid] = []
        if node is not None:
            self.by_ast.setdefault(id(node), []).append(nid)
        return nid

    def _edge(self, a: int, b: int, label: str) -> None:
        if (b, label) not in self.succ[a]:
            self.succ[a].append((b, label))

    def _raise_edges(self, nid: int, part: Optional[ast.AST], ctx: Ctx) -> None:
        if part is None:
            return
        classes = self.may_raise(part)
        if EXC in classes:
            for t in ctx.exc:
                self._edge(nid, t, EXC)
        if BASE in classes:
            for t in ctx.base:
                self._edge(nid, t, BASE)

    def _seq(self, stmts: Sequence[ast.stmt], nxt: int, ctx: Ctx) -> int:
        entry = nxt
        for st in reversed(list(stmts)):
            entry = self._stmt(st, entry, ctx)
        return entry

    def _stmt(self, st: ast.stmt, nxt: int, ctx: Ctx) -> int:
        if isinstance(st, ast.If):
            nid = self._new("if", st, st.test)
            folded = self.fold(st.test)
            if folded is not False:
                self._edge(nid, self._seq(st.body, nxt, ctx), "T")
            if folded is not True:
                self._edge(nid, self._seq(st.orelse, nxt, ctx) if st.orelse else nxt, "F")
            self._raise_edges(nid, st.test, ctx)
            return nid
        if isinstance(st, (ast.For, ast.AsyncFor)):
            nid = self._new("for", st, st.iter)
            after = self._seq(st.orelse, nxt, ctx) if st.orelse else nxt
            body_ctx = Ctx(ctx.exc, ctx.base, ctx.ret, brk=nxt, cont=nid, caught=ctx.caught)
            self._edge(nid, self._seq(st.body, nid, body_ctx), "T")
            self._edge(nid, after, "F")
            self._raise_edges(nid, st.iter, ctx)
            return nid
        if isinstance(st, ast.While):
            nid = self._new("while", st, st.test)
            after = self._seq(st.orelse, nxt, ctx) if st.orelse else nxt
            body_ctx = Ctx(ctx.exc, ctx.base, ctx.ret, brk=nxt, cont=nid, caught=ctx.caught)
            folded = self.fold(st.test)
            if folded is None and isinstance(st.test, ast.Constant):
                folded = bool(st.test.value)
            if folded is not False:
                self._edge(nid, self._seq(st.body, nid, body_ctx), "T")
            if folded is not True:
                self._edge(nid, after, "F")
            self._raise_edges(nid, st.test, ctx)
            return nid
        if isinstance(st, (ast.With, ast.AsyncWith)):
            nid = self._new("with", st, ast.Tuple(elts=[i.context_expr for i in st.items], ctx=ast.Load()))
            body_ctx = ctx
            full, part = suppressed_classes(st)
            if full or part:
                # `with contextlib.suppress(E):` is `try: body  except E: pass`: an exception of a suppressed class
                # raised in the body continues after the statement; a partially covered class may also propagate
                exc_t = ((nxt,) + (ctx.exc if EXC not in full else ())) if EXC in (full | part) else ctx.exc
                base_t = ((nxt,) + (ctx.base if BASE not in full else ())) if BASE in (full | part) else ctx.base
                body_ctx = Ctx(tuple(dict.fromkeys(exc_t)), tuple(dict.fromkeys(base_t)), ctx.ret, ctx.brk, ctx.cont, caught=ctx.caught)
            self._edge(nid, self._seq(st.body, nxt, body_ctx), "n")
            for item in st.items:
                self._raise_edges(nid, item.context_expr, ctx)
            return nid
        if isinstance(st, ast.Try) or type(st).__name__ == "TryStar":
            return self._try(st, nxt, ctx)  # type: ignore[arg-type]
        if isinstance(st, ast.Return):
            nid = self._new("stmt", st, st.value)
            self._edge(nid, ctx.ret, "ret")
            self._raise_edges(nid, st.value, ctx)
            return nid
        if isinstance(st, ast.Raise):
            nid = self._new("stmt", st, st)
            if st.exc is None and ctx.caught:
                classes = set(ctx.caught)
            else:
                classes = {EXC}
                target = st.exc.func if isinstance(st.exc, ast.Call) else st.exc
                name = (
                    target.id
                    if isinstance(target, ast.Name)
                    else target.attr if isinstance(target, ast.Attribute) else None
                )
                if name in BASE_ONLY_NAMES:
                    classes = {BASE}
            if EXC in classes:
                for t in ctx.exc:
                    self._edge(nid, t, EXC)
            if BASE in classes:
                for t in ctx.base:
                    self._edge(nid, t, BASE)
            return nid
        if isinstance(st, ast.Break):
            nid = self._new("stmt", st)
            if ctx.brk is None:
                raise AnalysisError("break outside loop")
            self._edge(nid, ctx.brk, "break")
            return nid
        if isinstance(st, ast.Continue):
            nid = self._new("stmt", st)
            if ctx.cont is None:
                raise AnalysisError("continue outside loop")
            self._edge(nid, ctx.cont, "continue")
            return nid
        if isinstance(st, FuncNode + (ast.ClassDef,)):
            nid = self._new("stmt", st)
            self._edge(nid, nxt, "n")
            return nid
        if type(st).__name__ == "Match":
            # a chain of tests, one per case, in order; the first node also evaluates the subject
            nxt_case = nxt
            first = True
            for case in reversed(st.cases):
                test = match_case_test(st.subject, case)
                nid = self._new("if", case, test)
                folded = True if isinstance(test, ast.Constant) and test.value is True else self.fold(test)
                if folded is not False:
                    self._edge(nid, self._seq(case.body, nxt, ctx), "T")
                if folded is not True:
                    self._edge(nid, nxt_case, "F")
                self._raise_edges(nid, test, ctx)
                nxt_case = nid
            self.by_ast.setdefault(id(st), []).append(nxt_case)
            return nxt_case
        # simple statement
        nid = self._new("stmt", st, st)
        self._edge(nid, nxt, "n")
        if isinstance(st, ast.Assert):
            for t in ctx.exc:
                self._edge(nid, t, EXC)
        self._raise_edges(nid, st, ctx)
        return nid

    def _try(self, st: ast.Try, nxt: int, ctx: Ctx) -> int:
        if st.finalbody:
            memo: Dict[int, int] = {}

            def fin(target: Optional[int]) -> Optional[int]:
                if target is None:
                    return None
                if target not in memo:
                    memo[target] = self._seq(st.finalbody, target, ctx)
                return memo[target]

            after = Ctx(
                exc=tuple(fin(t) for t in ctx.exc),  # type: ignore[misc]
                base=tuple(fin(t) for t in ctx.base),  # type: ignore[misc]
                ret=fin(ctx.ret),  # type: ignore[arg-type]
                brk=fin(ctx.brk),
                cont=fin(ctx.cont),
                caught=ctx.caught,
            )
            nxt2 = fin(nxt)
        else:
            after = ctx
            nxt2 = nxt
        assert nxt2 is not None
        exc_targets: List[int] = []
        base_targets: List[int] = []
        exc_open = True
        base_open = True
        for h in st.handlers:
            full, part = handler_classes(h)
            caught = tuple(sorted(full | part))
            hctx = Ctx(after.exc, after.base, after.ret, after.brk, after.cont, caught=caught)
            hid = self._new("except", h)
            self.nodes[hid].handler_of = h
            self._edge(hid, self._seq(h.body, nxt2, hctx), "n")
            if exc_open and EXC in (full | part):
                exc_targets.append(hid)
                if EXC in full:
                    exc_open = False
            if base_open and BASE in (full | part):
                base_targets.append(hid)
                if BASE in full:
                    base_open = False
        if exc_open:
            exc_targets.extend(after.exc)
        if base_open:
            base_targets.extend(after.base)
        body_ctx = Ctx(tuple(exc_targets), tuple(base_targets), after.ret, after.brk, after.cont, caught=ctx.caught)
        orelse_entry = self._seq(st.orelse, nxt2, after) if st.orelse else nxt2
        return self._seq(st.body, orelse_entry, body_ctx)

    # -- queries ---------------------------------------------------------
    def nodes_for(self, node: ast.AST) -> List[int]:
        return list(self.by_ast.get(id(node), []))

    def find(self, pred: Callable[[Node], bool]) -> List[int]:
        return [n.id for n in self.nodes if pred(n)]

    def successors(self, nid: int, labels: Optional[Set[str]] = None, skip_labels: Optional[Set[str]] = None):
        for t, lab in self.succ[nid]:
            if labels is not None and lab not in labels:
                continue
            if skip_labels is not None and lab in skip_labels:
                continue
            yield t, lab

    def reach(
        self,
        starts: Iterable[int],
        *,
        blocked: Optional[Set[int]] = None,
        blocked_edges: Optional[Set[Tuple[int, str]]] = None,
        skip_labels: Optional[Set[str]] = None,
    ) -> Dict[int, Optional[Tuple[int, str]]]:
        """Nodes reachable from *starts*; value = (predecessor, label) for path printing.

        ``blocked`` nodes are never entered (a start node in it is still expanded).
        ``blocked_edges`` are (node, label) pairs not to be followed.
        """
        blocked = blocked or set()
        blocked_edges = blocked_edges or set()
        starts = list(starts)
        seen: Dict[int, Optional[Tuple[int, str]]] = {s: None for s in starts}
        dq = deque(starts)
        while dq:
            n = dq.popleft()
            for t, lab in self.succ[n]:
                if skip_labels and lab in skip_labels:
                    continue
                if (n, lab) in blocked_edges:
                    continue
                if t in seen or t in blocked:
                    continue
                seen[t] = (n, lab)
                dq.append(t)
        return seen

    def path_to(self, seen: Dict[int, Optional[Tuple[int, str]]], target: int) -> List[str]:
        out: List[str] = []
        cur: Optional[int] = target
        guard = 0
        while cur is not None and guard < 10000:
            guard += 1
            node = self.nodes[cur]
            prev = seen.get(cur)
            lab = f" <-{prev[1]}-" if prev else ""
            out.append(f"L{node.line}: {node.text()}{lab}")
            cur = prev[0] if prev else None
        return list(reversed(out))

    def must_pass(
        self,
        starts: Iterable[int],
        exits: Iterable[int],
        pred: Callable[[Node], bool],
        **kw,
    ) -> List[Tuple[int, List[str]]]:
        """Exits reachable from *starts* without visiting a node satisfying *pred*."""
        blocked = {n.id for n in self.nodes if pred(n)}
        starts = [s for s in starts]
        seen = self.reach(starts, blocked=blocked, **kw)
        bad = []
        for e in exits:
            if e in seen and e not in blocked:
                bad.append((e, self.path_to(seen, e)))
        return bad

    def counts(
        self,
        starts: Iterable[int],
        pred: Callable[[Node], bool],
        *,
        skip_labels: Optional[Set[str]] = None,
        count_start: bool = False,
    ) -> Dict[int, Set[int]]:
        """Possible numbers (0, 1, 2=many) of *pred* nodes on paths from *starts* to each node.

        The count at node n includes n itself.
        """
        state: Dict[int, Set[int]] = {}
        dq: deque[int] = deque()
        start_set = set(starts)
        for s in start_set:
            state[s] = {1 if (count_start and pred(self.nodes[s])) else 0}
            dq.append(s)
        while dq:
            n = dq.popleft()
            for t, lab in self.succ[n]:
                if skip_labels and lab in skip_labels:
                    continue
                inc = 1 if pred(self.nodes[t]) else 0
                new = {min(c + inc, 2) for c in state[n]}
                old = state.get(t, set())
                if not new <= old:
                    state[t] = old | new
                    dq.append(t)
        return state

    def dominated_by_edge(self, target: int, guard: int, label: str, **kw) -> bool:
        """True iff *target* is unreachable from entry once edge (guard,label) is removed."""
        seen = self.reach([self.entry], blocked_edges={(guard, label)}, **kw)
        return target not in seen

    def dominated_by_node(self, target: int, dom: int, **kw) -> bool:
        seen = self.reach([self.entry], blocked={dom}, **kw)
        return target not in seen

    def stats(self) -> Dict[str, int]:
        return {"cfg_nodes": len(self.nodes), "cfg_edges": sum(len(v) for v in self.succ.values())}


# ---------------------------------------------------------------------------
# guard polarity: which outgoing edge of a test guarantees an atom
# ---------------------------------------------------------------------------


def match_case_test(subject: ast.AST, case: ast.AST) -> ast.AST:
    """The boolean expression a `case` of a match statement tests (an equivalent `if` condition): value and singleton
    patterns compare the subject, `|` is `or`, `_` is True, a class pattern without sub-patterns is isinstance;
    anything else (captures, sequence / mapping / nested patterns) is an opaque call `__match__(subject, '<pattern>')`."""
    def pat(p: ast.AST) -> ast.AST:
        k = type(p).__name__
        if k == "MatchValue":
            return ast.Compare(left=subject, ops=[ast.Eq()], comparators=[p.value])
        if k == "MatchSingleton":
            return ast.Compare(left=subject, ops=[ast.Is()], comparators=[ast.Constant(value=p.value)])
        if k == "MatchOr":
            return ast.BoolOp(op=ast.Or(), values=[pat(x) for x in p.patterns])
        if k == "MatchAs" and p.pattern is None and p.name is None:
            return ast.Constant(value=True)
        if k == "MatchClass" and not p.patterns and not p.kwd_patterns:
            return ast.Call(func=ast.Name(id="isinstance", ctx=ast.Load()), args=[subject, p.cls], keywords=[])
        return ast.Call(func=ast.Name(id="__match__", ctx=ast.Load()), args=[subject, ast.Constant(value=ast.unparse(p))], keywords=[])

    test = pat(case.pattern)
    if case.guard is not None:
        test = case.guard if isinstance(test, ast.Constant) and test.value is True else ast.BoolOp(op=ast.And(), values=[test, case.guard])
    ast.copy_location(test, case.pattern)
    ast.fix_missing_locations(test)
    return test


def edges_guaranteeing(test: ast.AST, atom: Callable[[ast.AST], Optional[bool]]) -> Set[str]:
    """Edges ('T'/'F') of a branch on *test* on which the atom is known to hold.

    ``atom(expr)`` returns True when *expr* is the atom itself, False when it is
    its negation, None otherwise.  ``not``, ``and`` and ``or`` are interpreted;
    anything else is opaque.
    """
    pol = atom(test)
    if pol is True:
        return {"T"}
    if pol is False:
        return {"F"}
    if isinstance(test, ast.UnaryOp) and isinstance(test.op, ast.Not):
        inner = edges_guaranteeing(test.operand, atom)
        return {"F" if e == "T" else "T" for e in inner}
    if isinstance(test, ast.BoolOp):
        out: Set[str] = set()
        subs = [edges_guaranteeing(v, atom) for v in test.values]
        for sub in subs:
            if isinstance(test.op, ast.And) and "T" in sub:
                out.add("T")  # whole true => every conjunct true
            if isinstance(test.op, ast.Or) and "F" in sub:
                out.add("F")  # whole false => every disjunct false
        # whole ``or`` true => some disjunct true: guaranteed when every disjunct's truth guarantees the atom;
        # dually whole ``and`` false => some conjunct false
        if isinstance(test.op, ast.Or) and subs and all("T" in sub for sub in subs):
            out.add("T")
        if isinstance(test.op, ast.And) and subs and all("F" in sub for sub in subs):
            out.add("F")
        return out
    return set()


def returns_only_through(cfg: "CFG", atom: Callable[[ast.AST], Optional[bool]], targets: Optional[Iterable[int]] = None) -> Tuple[bool, List[str], int]:
    """True iff *targets* (default: the normal-return exit) are reachable from the
    entry only through a branch edge that guarantees *atom*.

    Returns (holds, offending path, number of guarding tests found).
    """
    blocked_edges: Set[Tuple[int, str]] = set()
    guards = 0
    for n in cfg.nodes:
        if n.kind in ("if", "while") and n.part is not None:
            g = edges_guaranteeing(n.part, atom)
            if g:
                guards += 1
            for e in g:
                blocked_edges.add((n.id, e))
    tgt = list(targets) if targets is not None else [cfg.ret_exit]
    seen = cfg.reach([cfg.entry], blocked_edges=blocked_edges)
    for t in tgt:
        if t in seen:
            return False, cfg.path_to(seen, t), guards
    return True, [], guards


def reaching_defs(g: "CFG", name: str, use: int) -> List[Node]:
    """Assignment nodes ``name = ...`` (plain Name target, incl. tuple targets, for-targets, with-targets and
    ``except .. as``) that can reach CFG node *use* without an intervening rebinding of *name*.

    Rebindings that are not returned but end the reach of an earlier definition: ``del name``, an import or a
    def / class statement binding the name, and an assignment expression ``(name := ..)`` evaluated at a node.
    A binding statement that raises has not bound the name: the exception edges of a rebinding node carry the
    earlier definition on, and the reach of a definition starts at its normal successors only."""

    def defines(n: Node) -> bool:
        a = n.ast
        if a is None:
            return False
        if n.kind == "stmt" and isinstance(a, (ast.Assign, ast.AnnAssign, ast.AugAssign)):
            tgts = a.targets if isinstance(a, ast.Assign) else [a.target]
            return any(isinstance(x, ast.Name) and x.id == name for t in tgts for x in ast.walk(t) if isinstance(x, ast.Name) and isinstance(x.ctx, ast.Store))
        if n.kind == "for" and isinstance(a, (ast.For, ast.AsyncFor)):
            return any(isinstance(x, ast.Name) and x.id == name for x in ast.walk(a.target))
        if n.kind == "with" and isinstance(a, (ast.With, ast.AsyncWith)):
            return any(it.optional_vars is not None and any(isinstance(x, ast.Name) and x.id == name for x in ast.walk(it.optional_vars)) for it in a.items)
        if n.kind == "except" and isinstance(a, ast.ExceptHandler):
            return a.name == name
        return False

    def rebinds_only(n: Node) -> bool:
        a = n.ast
        if a is None:
            return False
        if n.kind == "stmt" and isinstance(a, ast.Delete):
            return any(isinstance(t, ast.Name) and t.id == name for t in a.targets)
        if n.kind == "stmt" and isinstance(a, (ast.Import, ast.ImportFrom)):
            return any((al.asname or al.name).split(".")[0] == name for al in a.names)
        if n.kind == "stmt" and isinstance(a, FuncNode + (ast.ClassDef,)):
            return getattr(a, "name", None) == name
        ev = n.part if n.part is not None else (a if n.kind == "stmt" else None)
        if ev is not None:
            for x in walk_no_nested(ev):
                if isinstance(x, ast.NamedExpr) and isinstance(x.target, ast.Name) and x.target.id == name:
                    return True
        return False

    defs = [n for n in g.nodes if defines(n)]
    kills = {n.id for n in g.nodes if n.id != use and (defines(n) or rebinds_only(n))}
    out = []
    for d in defs:
        starts = [t for t, lab in g.succ[d.id] if lab not in (EXC, BASE)]
        seen = set(starts)
        dq = deque(starts)
        while dq:
            n = dq.popleft()
            if n == use:
                continue  # reached; what follows the use does not matter
            for t, lab in g.succ[n]:
                if n in kills and n != d.id and lab not in (EXC, BASE) and not (g.nodes[n].kind == "for" and lab == "F"):
                    continue  # the rebinding completed: the earlier definition ends here (a loop left without
                    # another iteration binds nothing)
                if t not in seen:
                    seen.add(t)
                    dq.append(t)
        if use in seen:
            out.append(d)
    return out
