"""E11: rule-instance bookkeeping, known findings, evidence and exit codes."""
from __future__ import annotations

import json
import os
import time
from dataclasses import dataclass, field, asdict
from pathlib import Path
from typing import Any, Dict, List, Optional, Sequence

from .engine import AnalysisError

VERIF = Path(__file__).resolve().parent.parent


@dataclass
class Instance:
    rule: str
    file: str
    function: str
    stmt: str
    verdict: str  # ok | violation | known | note
    what: str = ""
    line: int = 0
    path: List[str] = field(default_factory=list)

    def key(self):
        return (self.rule, self.file, self.function, self.stmt)


class Report:
    def __init__(self, pid: str, tier: str = "quick") -> None:
        self.pid = pid
        self.tier = tier
        self.t0 = time.time()
        self.rules: Dict[str, str] = {}
        self.minimum: Dict[str, int] = {}
        self.instances: List[Instance] = []
        self.assumptions: List[str] = []
        self.not_decided: List[str] = []
        self.extra: Dict[str, Any] = {}
        self.notes: List[str] = []
        self.rule_prefix = ""

    # -- declaring ----------------------------------------------------
    def rule(self, rule_id: str, description: str, minimum: int = 1) -> str:
        rule_id = self.rule_prefix + rule_id
        self.rules[rule_id] = description
        self.minimum[rule_id] = minimum
        return rule_id

    def assume(self, *texts: str) -> None:
        self.assumptions.extend(texts)

    def undecided(self, *texts: str) -> None:
        self.not_decided.extend(texts)

    # -- recording ----------------------------------------------------
    def _add(self, verdict: str, rule: str, file: str, function: str, stmt: str, what: str, line: int, path: Optional[Sequence[str]]):
        if rule not in self.rules:
            raise AnalysisError(f"undeclared rule {rule}")
        self.instances.append(Instance(rule, file, function, stmt, verdict, what, line, list(path or [])))

    def ok(self, rule: str, file: str, function: str, stmt: str, what: str = "", line: int = 0) -> None:
        self._add("ok", rule, file, function, stmt, what, line, None)

    def violation(self, rule: str, file: str, function: str, stmt: str, what: str, line: int = 0, path: Optional[Sequence[str]] = None) -> None:
        self._add("violation", rule, file, function, stmt, what, line, path)

    def check(self, cond: bool, rule: str, file: str, function: str, stmt: str, what_if_bad: str, line: int = 0, path: Optional[Sequence[str]] = None, what_ok: str = "") -> bool:
        if cond:
            self.ok(rule, file, function, stmt, what_ok, line)
        else:
            self.violation(rule, file, function, stmt, what_if_bad, line, path)
        return cond

    def note(self, text: str) -> None:
        self.notes.append(text)

    # -- finishing ----------------------------------------------------
    def enforce_minimums(self) -> None:
        if self.violations():
            return  # a located violation is reported; it must not be masked by a count shortfall
        counts: Dict[str, int] = {}
        for inst in self.instances:
            counts[inst.rule] = counts.get(inst.rule, 0) + 1
        for rule, minimum in self.minimum.items():
            if counts.get(rule, 0) < minimum:
                raise AnalysisError(
                    f"rule {rule} matched {counts.get(rule, 0)} instance(s), fewer than the {minimum} confirmed by reading"
                )

    def apply_known_findings(self, known_path: Path) -> List[Dict[str, Any]]:
        try:
            known = json.loads(known_path.read_text())
        except FileNotFoundError:
            known = {"findings": []}
        used = []
        for kf in known.get("findings", []):
            if kf.get("property") != self.pid:
                continue
            for inst in self.instances:
                if inst.verdict != "violation":
                    continue
                if (
                    inst.rule == kf.get("rule")
                    and inst.file == kf.get("file")
                    and inst.function == kf.get("function")
                    and inst.stmt == kf.get("stmt")
                ):
                    inst.verdict = "known"
                    used.append(kf)
        return used

    def violations(self) -> List[Instance]:
        return [i for i in self.instances if i.verdict == "violation"]

    def evidence(self, repo, selftest: Optional[Dict[str, Any]] = None) -> Dict[str, Any]:
        obligations = [i for i in self.instances if i.verdict in ("ok", "violation", "known")]
        discharged = [i for i in obligations if i.verdict == "ok"]
        distinct = {i.key() for i in obligations}
        samples = [
            {"rule": i.rule, "file": i.file, "function": i.function, "line": i.line, "stmt": i.stmt, "verdict": i.verdict, **({"what": i.what} if i.what else {})}
            for i in (self.violations() + [i for i in obligations if i.verdict == "known"] + discharged)[:40]
        ]
        per_rule: Dict[str, Dict[str, int]] = {}
        for i in obligations:
            d = per_rule.setdefault(i.rule, {"instances": 0, "ok": 0, "violation": 0, "known": 0})
            d["instances"] += 1
            d[i.verdict] += 1
        explanation = (
            f"Static analysis of /repo source (no execution). Rules applied: "
            + "; ".join(f"{k}: {v}" for k, v in self.rules.items())
            + ". Each obligation is one rule instance (a site, path set or table row found in the current source). "
            + ("Not decided by this check: " + "; ".join(self.not_decided) + "." if self.not_decided else "")
        )
        cov: Dict[str, Any] = {
            "explanation": explanation,
            "obligations": len(obligations),
            "discharged": len(discharged),
            "evaluations": len(obligations),
            "distinct_nontrivial": len(distinct),
            "rule": "one evaluation per rule instance located in the parsed source; distinct = distinct (rule, file, function, normalised statement) keys",
            "samples": samples or [{"note": "no instances"}],
            "rules": per_rule,
            "rule_statements": dict(self.rules),
            "checker_cmd": f"/venv/bin/python /verif/sa/check.py {self.pid} --tier {self.tier}",
            "trusted_base": ["CPython ast module (parser and grammar tables)", "the rule tables in /verif/sa/props"],
            "files": repo.files_evidence() if repo is not None else [],
            "modules_parsed": len(repo.modules) if repo is not None else 0,
            "notes": self.notes,
            "exhaustive": True,
        }
        try:
            from .cfg import STATS

            cov["cfgs_built"] = STATS["cfgs_built"]
            cov["cfg_nodes"] = STATS["cfg_nodes"]
            cov["cfg_edges"] = STATS["cfg_edges"]
            cov["functions_with_cfg"] = sorted(f"{n}@{l}" for n, l in STATS["functions"])
        except Exception:  # pragma: no cover
            pass
        cov["functions_in_instances"] = sorted({i.function for i in obligations if i.function})
        cov.update(self.extra)
        if selftest is not None:
            cov["selftest"] = selftest
        return {
            "property_id": self.pid,
            "tier": self.tier,
            "seed": int(os.environ.get("VERIF_SEED", "0") or 0),
            "level": "other",
            "coverage": cov,
            "assumptions": self.assumptions,
            "wall_s": round(time.time() - self.t0, 3),
            "violations": len(self.violations()),
            "known_findings": [asdict(i) for i in self.instances if i.verdict == "known"],
        }
