#!/venv/bin/python
"""Entry point: /venv/bin/python /verif/sa/check.py <Cxx> [--tier quick|thorough] [--repo /repo]

Exit 0: every rule instance held (KNOWN-FINDING lines possible).
Exit 1: `VIOLATION property=<id> replay=<path>` per unlisted violation.
Exit 2: `ANALYSIS-ERROR ...` - the analysis cannot be trusted (vanished anchor, ...).
"""
from __future__ import annotations

import argparse
import importlib
import json
import os
import sys
import traceback
from pathlib import Path

HERE = Path(__file__).resolve().parent
VERIF = HERE.parent
if str(VERIF) not in sys.path:
    sys.path.insert(0, str(VERIF))

from sa.engine import AnalysisError, Repo  # noqa: E402
from sa.report import Report  # noqa: E402

PROPS = [f"C{i:02d}" for i in range(1, 19)]


def analyse(pid: str, root: str, tier: str = "quick"):
    """Run the rules of property *pid* on the tree at *root*; returns (repo, report)."""
    repo = Repo(root)
    report = Report(pid, tier)
    mod = importlib.import_module(f"sa.props.{pid.lower()}")
    try:
        mod.run(repo, report)
    except AnalysisError as exc:
        # a violation that was already located (and is not a recorded known finding) stands: the changed shape that
        # stopped the analysis further on must not turn a verdict into "analysis broken"
        report.apply_known_findings(VERIF / "known_findings.json")
        if not report.violations():
            raise
        report.note(f"analysis stopped after locating the violation(s): {exc}")
        return repo, report
    report.enforce_minimums()
    return repo, report


def main(argv=None) -> int:
    ap = argparse.ArgumentParser()
    ap.add_argument("pid")
    ap.add_argument("--tier", default=os.environ.get("VERIF_TIER") or "quick", choices=["quick", "thorough"])
    ap.add_argument("--repo", default="/repo")
    ap.add_argument("--no-evidence", action="store_true", help="do not write evidence/replay files (scratch copies)")
    args = ap.parse_args(argv)
    pid = args.pid.upper()
    if pid not in PROPS:
        print(f"ANALYSIS-ERROR unknown property {pid}")
        return 2
    evidence_path = VERIF / "evidence" / f"{pid}.json"
    try:
        repo, report = analyse(pid, args.repo, args.tier)
        used = report.apply_known_findings(VERIF / "known_findings.json")
        selftest = None
        if args.tier == "thorough":
            from selftest.runner import run_selftest

            selftest = run_selftest(pid, args.repo)
        ev = report.evidence(repo, selftest)
    except AnalysisError as exc:
        print(f"ANALYSIS-ERROR property={pid} {exc}")
        return 2
    except Exception as exc:  # a traceback must never look like a violation
        traceback.print_exc()
        print(f"ANALYSIS-ERROR property={pid} checker exception: {type(exc).__name__}: {exc}")
        return 2

    for rule, desc in report.rules.items():
        n = sum(1 for i in report.instances if i.rule == rule)
        bad = sum(1 for i in report.instances if i.rule == rule and i.verdict == "violation")
        print(f"[{pid}] {rule}: {n} instance(s), {bad} violation(s) - {desc}")
    for note in report.notes:
        print(f"[{pid}] note: {note}")
    for inst in report.instances:
        if inst.verdict == "known":
            print(f"KNOWN-FINDING: property={pid} {inst.rule} {inst.file}:{inst.function} `{inst.stmt}` - {inst.what}")

    violations = report.violations()
    rc = 0
    if not args.no_evidence:
        (VERIF / "evidence").mkdir(exist_ok=True)
    for n, inst in enumerate(violations):
        replay = VERIF / "evidence" / "replay" / f"{pid}-{n}.json"
        if not args.no_evidence:
            replay.parent.mkdir(parents=True, exist_ok=True)
            replay.write_text(
                json.dumps(
                    {
                        "property": pid,
                        "rule": inst.rule,
                        "rule_text": report.rules.get(inst.rule, ""),
                        "file": inst.file,
                        "line": inst.line,
                        "function": inst.function,
                        "stmt": inst.stmt,
                        "what": inst.what,
                        "path": inst.path,
                        "rerun": f"/venv/bin/python /verif/sa/check.py {pid} --repo {args.repo}",
                    },
                    indent=1,
                )
            )
        print(f"  {inst.rule} {inst.file}:{inst.line} in {inst.function}: `{inst.stmt}` - {inst.what}")
        for step in inst.path[-12:]:
            print(f"      {step}")
        print(f"VIOLATION property={pid} replay={replay}")
        rc = 1
    if selftest is not None:
        print(f"[{pid}] selftest: {json.dumps({k: v for k, v in selftest.items() if k != 'variants'})}")
        if selftest.get("failed"):
            for f in selftest["failed"]:
                print(f"ANALYSIS-ERROR property={pid} selftest variant {f}")
            if rc == 0:
                rc = 2
    if not args.no_evidence:
        evidence_path.write_text(json.dumps(ev, indent=1))
    if rc == 0:
        print(f"[{pid}] OK: {ev['coverage']['discharged']}/{ev['coverage']['obligations']} obligations discharged ({ev['wall_s']} s)")
    return rc


if __name__ == "__main__":
    try:
        code = main()
    except SystemExit:
        raise
    except BaseException as exc:  # pragma: no cover
        traceback.print_exc()
        print(f"ANALYSIS-ERROR checker crashed: {type(exc).__name__}: {exc}")
        code = 2
    sys.exit(code)
