"""Structural patterns over the syntax tree with metavariables.

A pattern is Python source in which a name of the form ``_X_`` (underscore, letters/digits,
underscore) is a metavariable: it matches any expression (or, as an assignment target, loop
variable or ``arg``, any name) and every occurrence must match the same thing.  Everything
else must match structurally.  This lets rules speak about *roles* ("the list that was assigned
``sorted(sequences.keys())``") instead of local variable names, so renaming a local does not
change a verdict.
"""
from __future__ import annotations

import ast
import re
from typing import Dict, Iterator, List, Optional, Tuple

from .engine import walk_no_nested

META = re.compile(r"^_[A-Za-z0-9]+_$")
ANY = "_ANY_"  # matches anything, never bound
class Env(dict):
    """Metavariable bindings; truthy even when empty so `if match(...)` reads naturally."""

    def __bool__(self) -> bool:  # pragma: no cover - trivial
        return True


_CACHE: Dict[str, ast.AST] = {}


def compile_pattern(src: str) -> ast.AST:
    if src not in _CACHE:
        mod = ast.parse(src.strip())
        if len(mod.body) == 1 and isinstance(mod.body[0], ast.Expr):
            _CACHE[src] = mod.body[0].value
        elif len(mod.body) == 1:
            _CACHE[src] = mod.body[0]
        else:
            _CACHE[src] = mod
    return _CACHE[src]


def _dump(n: ast.AST) -> str:
    if isinstance(n, ast.Name):
        return f"Name({n.id})"
    return ast.dump(n, include_attributes=False).replace("ctx=Store()", "ctx=Load()").replace("ctx=Del()", "ctx=Load()")


def pmatch(pat: ast.AST, node: ast.AST, env: Env) -> bool:
    """Match *node* against *pat*, extending *env* (bindings are kept only on success by callers)."""
    if isinstance(pat, ast.Name) and (META.match(pat.id) or pat.id == ANY):
        if pat.id == ANY:
            return True
        if pat.id in env:
            return _dump(env[pat.id]) == _dump(node)
        env[pat.id] = node
        return True
    if isinstance(pat, ast.arg) and META.match(pat.arg):
        if not isinstance(node, ast.arg):
            return False
        bound = env.get(pat.arg)
        if bound is not None:
            return isinstance(bound, ast.Name) and bound.id == node.arg
        env[pat.arg] = ast.Name(id=node.arg, ctx=ast.Load())
        return True
    if type(pat) is not type(node):
        return False
    for field in pat._fields:
        if field in ("ctx", "type_comment", "kind"):
            continue
        pv, nv = getattr(pat, field, None), getattr(node, field, None)
        if isinstance(pv, list):
            if not isinstance(nv, list) or len(pv) != len(nv):
                return False
            for a, b in zip(pv, nv):
                if isinstance(a, ast.AST):
                    if not isinstance(b, ast.AST) or not pmatch(a, b, env):
                        return False
                elif a != b:
                    return False
        elif isinstance(pv, ast.AST):
            if not isinstance(nv, ast.AST) or not pmatch(pv, nv, env):
                return False
        else:
            if isinstance(pv, str) and META.match(pv) and isinstance(nv, str):
                # identifier position (e.g. ExceptHandler.name, keyword.arg is never meta)
                bound = env.get(pv)
                if bound is not None:
                    if not (isinstance(bound, ast.Name) and bound.id == nv):
                        return False
                else:
                    env[pv] = ast.Name(id=nv, ctx=ast.Load())
            elif pv != nv:
                return False
    return True


def match(pattern: str, node: ast.AST, env: Optional[Env] = None) -> Optional[Env]:
    e = Env(env or {})
    return e if pmatch(compile_pattern(pattern), node, e) else None


def find(root: ast.AST, pattern: str, env: Optional[Env] = None, nested: bool = False) -> List[Tuple[ast.AST, Env]]:
    """All sub-nodes of *root* matching *pattern* (statement or expression pattern)."""
    pat = compile_pattern(pattern)
    out = []
    it = ast.walk(root) if nested else walk_no_nested(root)
    for n in it:
        if type(n) is type(pat) or (isinstance(pat, ast.Name) and META.match(pat.id)):
            e = Env(env or {})
            if pmatch(pat, n, e):
                out.append((n, e))
    out.sort(key=lambda t: (getattr(t[0], "lineno", 0), getattr(t[0], "col_offset", 0)))
    return out


def find1(root: ast.AST, pattern: str, env: Optional[Env] = None, nested: bool = False) -> Optional[Tuple[ast.AST, Env]]:
    r = find(root, pattern, env, nested)
    return r[0] if r else None


def name_of(env: Env, var: str) -> Optional[str]:
    n = env.get(var)
    return n.id if isinstance(n, ast.Name) else None


def subst(pattern: str, env: Env) -> str:
    """Pattern text with bound metavariables replaced by their source (for messages)."""
    out = pattern
    for k, v in env.items():
        try:
            out = out.replace(k, ast.unparse(v))
        except Exception:
            pass
    return out
